# Builds libvata from the *current working tree* of $(REPO) (default /repo) plus the
# verification engine, one build directory per variant.  Called by bin/check under flock.
#
#   make VARIANT=rel|asan|init0|initP [REPO=/repo] [BUILD=/verif/build/<variant>]
#
# The source list is parsed from $(REPO)/src/CMakeLists.txt so that an added or removed
# file is honoured; -MMD tracks header dependencies, so an unchanged tree costs < 1 s.

REPO    ?= /repo
VARIANT ?= rel
VERIF   := $(dir $(abspath $(lastword $(MAKEFILE_LIST))))
BUILD   ?= $(VERIF)build/$(VARIANT)
CXX     := g++
GUARD   := -DVATA_VERIF

FLAGS_rel   := -O2 -DNDEBUG
FLAGS_asan  := -O1 -g -DNDEBUG -fsanitize=address,undefined -fno-sanitize-recover=undefined -fno-omit-frame-pointer -D_GLIBCXX_ASSERTIONS
FLAGS_init0 := -O1 -DNDEBUG -ftrivial-auto-var-init=zero
FLAGS_initP := -O1 -DNDEBUG -ftrivial-auto-var-init=pattern
VFLAGS  := $(FLAGS_$(VARIANT))
ifeq ($(strip $(VFLAGS)),)
$(error unknown VARIANT=$(VARIANT))
endif

LIBSRC_NAMES := $(shell sed -n '/add_library(libvata/,/^)/p' $(REPO)/src/CMakeLists.txt | grep -o '[A-Za-z0-9_.-]*\.cc')
LIBOBJ  := $(patsubst %.cc,$(BUILD)/lib/%.o,$(LIBSRC_NAMES))
ENGSRC  := $(wildcard $(VERIF)engine/*.cc)
ENGOBJ  := $(patsubst $(VERIF)engine/%.cc,$(BUILD)/eng/%.o,$(ENGSRC))

LIBCXXFLAGS := -std=c++11 -fPIC -fno-strict-aliasing -w $(VFLAGS) $(GUARD) -I$(REPO)/include
ENGCXXFLAGS := -std=c++17 -fno-strict-aliasing -fno-access-control -Wall -Wno-unused -Wno-sign-compare -Wno-deprecated-declarations \
               $(VFLAGS) $(GUARD) -I$(REPO)/include -I$(REPO)/src -I$(VERIF)engine \
               -DVERIF_VARIANT=\"$(VARIANT)\" -DVERIF_REPO=\"$(REPO)\"

all: $(BUILD)/vcheck

$(BUILD)/lib/%.o: $(REPO)/src/%.cc
	@mkdir -p $(dir $@)
	$(CXX) $(LIBCXXFLAGS) -MMD -MP -c $< -o $@

$(BUILD)/libvata.a: $(LIBOBJ) $(REPO)/src/CMakeLists.txt
	@rm -f $@
	ar rcs $@ $(LIBOBJ)

$(BUILD)/eng/%.o: $(VERIF)engine/%.cc
	@mkdir -p $(dir $@)
	$(CXX) $(ENGCXXFLAGS) -MMD -MP -c $< -o $@

$(BUILD)/vcheck: $(ENGOBJ) $(BUILD)/libvata.a
	$(CXX) $(VFLAGS) -o $@ $(ENGOBJ) $(BUILD)/libvata.a

clean:
	rm -rf $(BUILD)

-include $(LIBOBJ:.o=.d) $(ENGOBJ:.o=.d)

.PHONY: all clean
