"""Per-property plan: which engine checks (variant, name) make up the quick and the thorough tier,
the evidence level, the enumeration rule, the assumptions and the vacuity guards."""

COMMON_ASSUMPTIONS = [
    "reference models in /verif/engine/ref_*.hh (fixpoints / subset constructions by definition) are correct; they are cross-checked against brute-force tree/word membership by the c00.* self-checks",
    "libvata is rebuilt from the repository working tree with the source list of src/CMakeLists.txt, -O2 -DNDEBUG (rel) or -O1 ASan+UBSan (asan); g++ 12, libstdc++",
    "nothing is claimed beyond the stated bounds (number of states / rules / symbols / history depth)",
]

PLAN = {}
NOT_APPLICABLE = {}

PLAN["C01"] = {
    "level": "exploration",
    "rule": "every ordered pair (A,B) of the finite domain TA(n,Sigma,<=k rules per side, any final set) is built through the public API and "
            "checked with all 8 implemented InclParam selections (no-sim variants on raw operands under 2 state numberings, sim variants with the "
            "cli/unit-test recipe: SanitizeAutsForInclusion + UnionDisjointStates + ComputeSimulation) against the reference subset-construction inclusion; "
            "a pair is non-trivial when both languages are non-empty and A != B (pairs are distinct by construction of the index bijection)",
    "assumptions": COMMON_ASSUMPTIONS,
    "claim": "Every ordered pair of tree automata of the stated finite domains is decided by all 8 implemented inclusion variants on the real library "
             "and compared with an exact reference; exhaustive within the bounds, nothing beyond them. Small-scope exhaustiveness is the right level because "
             "the known failure modes (leaf symbols on one side, rule-less / useless states, binary rules with differently reached children) all occur with <=3 states and <=4 rules.",
    "technique": "bounded exhaustive enumeration of automata pairs x all InclParam configurations against a reference subset construction",
    "quick": [("rel", "c01.unimpl"), ("rel", "c01.n2s3k2"), ("rel", "c01.n2s2k3")],
    "thorough": [("rel", "c01.unimpl"), ("rel", "c01.n2s3k3"), ("rel", "c01.n3agk4"), ("rel", "c01.n2s2k4")],
    "require": {"all": ["expect_included", "nonemptyA_not_included", "nonemptyA_included", "class_A_nullary_B_lacks", "class_A_state_without_rules",
                        "class_useless_states", "class_binary_both", "unimpl_calls"]},
}

PLAN["C02"] = {
    "level": "exploration",
    "rule": "every ordered pair (A,B) of TA(n,Sigma,<=k per side) with overlapping state numbers: Union (no maps / empty maps / lhs map pre-filled by an earlier Union / stale "
            "entries), UnionDisjointStates (B shifted apart), Intersection and IntersectionBU (with and without product map); result language vs reference union/product, "
            "result rule-for-rule equal to the renamed union, every result state named by the maps and (intersection) L(result,s)=L(A,p)&L(B,q), operands re-read unchanged; "
            "non-trivial = both operands non-empty languages and A != B",
    "assumptions": COMMON_ASSUMPTIONS + ["the product map of Intersection is documented [out]: pre-filled product maps are not part of the domain"],
    "claim": "All pairs of the finite domains through every union/intersection entry point and map-passing mode against the reference; exhaustive within bounds.",
    "technique": "bounded exhaustive enumeration of automata pairs x entry points x map modes against reference union/product",
    "quick": [("rel", "c02.n2s3k2"), ("rel", "c02.n2s2k3")],
    "thorough": [("rel", "c02.n2s3k3"), ("rel", "c02.n2s2k4"), ("rel", "c02.n3s3pk4")],
    "require": {"all": ["intersection_nonempty", "intersection_empty", "class_empty_operand", "class_useless_states"]},
}

PLAN["C03"] = {
    "level": "exploration",
    "rule": "every automaton of TA(n,Sigma,<=k rules, any final set): RemoveUnreachableStates (with/without map), RemoveUselessStates, IsLangEmpty vs reference "
            "(language equality, every remaining state reachable top-down / useful in the result, emptiness exact, operand unchanged); non-trivial = non-empty language with at least one useless state",
    "assumptions": COMMON_ASSUMPTIONS,
    "claim": "Every automaton of the finite domains; the size-shortcut shape (|reachable| = |rule owners| with different sets) is a mandatory outcome class.",
    "technique": "bounded exhaustive enumeration of automata against reference reachability/productivity fixpoints",
    "quick": [("rel", "c03.n3s3pk4"), ("rel", "c03.n2s3k6")],
    "thorough": [("rel", "c03.n3s3pk5"), ("rel", "c03.n2s3k7"), ("rel", "c03.n4agk4")],
    "require": {"all": ["class_equal_counts_different_sets", "class_unreachable_rule_owner", "class_final_without_rules", "class_no_final", "lang_empty", "lang_nonempty"]},
}

PLAN["C04"] = {
    "level": "exploration",
    "rule": "every automaton of TA(n,Sigma,<=k) whose used states are exactly 0..n-1, under all n! renumberings and 2 rule insertion orders: downward simulation (all) and "
            "upward simulation (automata without useless states) compared entry by entry with the greatest fixpoint computed from the definition; non-trivial = at least 2 rules",
    "assumptions": COMMON_ASSUMPTIONS,
    "claim": "Every dense automaton of the finite domains under every bijective renumbering; relation compared entry-wise with the definition.",
    "technique": "bounded exhaustive enumeration of automata x all state bijections x insertion orders against definitional greatest-fixpoint simulations",
    "quick": [("rel", "c04.n2s3k5"), ("rel", "c04.n3s3pk4")],
    "thorough": [("rel", "c04.n2s3k6"), ("rel", "c04.n3s3pk5")],
    "require": {"all": ["trimmed", "not_trimmed", "up_nonidentity", "down_nonidentity"]},
}

PLAN["C05"] = {
    "level": "exploration",
    "rule": "every automaton of TA(n,Sigma,<=k) under 3 numberings (dense, sparse 7q+3, descending): Reduce() vs reference (language equal, #states and #rules not larger, result is "
            "an onto homomorphic image: some map of A's states onto the result's states carries finals and rules of the result), operand unchanged; non-trivial = non-empty language and >=2 rules",
    "assumptions": COMMON_ASSUMPTIONS,
    "claim": "Every automaton of the finite domains under three numberings.",
    "technique": "bounded exhaustive enumeration of automata x numberings against reference language equality and image search",
    "quick": [("rel", "c05.n3s3pk4"), ("rel", "c05.n2s3k6")],
    "thorough": [("rel", "c05.n3s3pk5"), ("rel", "c05.n2s3k7")],
    "require": {"all": ["reduced_states", "class_useless_states", "lang_nonempty"]},
}

PLAN["C06"] = {
    "level": "exploration",
    "rule": "every automaton (states 0..m-1) of TA(2..3,S,<=k) for S in {a:0},{a:0,b:0},{a:0,f:1},{a:0,b:0,g:2},{a:0,b:0,f:1,g:2},{a:0,g:2}, attached to a PRIVATE OnTheFlyAlphabet "
            "in which all symbols of S are registered in every possible order (so unused registered symbols occur): Complement() vs reference (product with A empty, union with A universal over S by "
            "subset construction, no symbol outside S / wrong rank, direct membership of all trees up to height 2); non-trivial = A neither empty nor universal",
    "assumptions": COMMON_ASSUMPTIONS + ["states are numbered 0..m-1 as the library's loaders produce them; a sparse-numbering sub-check is run separately"],
    "claim": "Every automaton of the finite domains over every small ranked alphabet and registration order.",
    "technique": "bounded exhaustive enumeration of automata x alphabets x registration orders against reference product-emptiness and universality",
    "quick": [("rel", "c06.n2sAk2"), ("rel", "c06.n2sLk4"), ("rel", "c06.n2sAFk4"), ("rel", "c06.n2s2k4"), ("rel", "c06.n2s3k3"), ("rel", "c06.sparse.n2s2k3")],
    "thorough": [("rel", "c06.n2sAk2"), ("rel", "c06.n2sLk4"), ("rel", "c06.n2sAFk4"), ("rel", "c06.n2s2k5"), ("rel", "c06.n2s3k4"), ("rel", "c06.n3agk3"), ("rel", "c06.sparse.n2s2k3")],
    "require": {"all": ["A_universal", "A_not_universal", "A_empty", "class_unused_registered_symbol"]},
}

PLAN["C14"] = {
    "level": "exploration",
    "rule": "every automaton of TA(n,Sigma,<=k) x every state map {0..n-1}->{0..n-1} plus 3 sparse/offset maps, through ReindexStates(weak translator pre-filled / allocating), "
            "ReindexStates(functor, with/without finals), ReindexStates(dst empty / pre-filled), CollapseStates, and x every symbol map Sigma->Sigma+1 fresh for TranslateSymbols: "
            "result finals and rules must equal the image sets exactly, each rule yielded once, translators hold exactly the visited states, operand unchanged; non-trivial = >=2 rules",
    "assumptions": COMMON_ASSUMPTIONS,
    "claim": "Every automaton x every state map x every symbol map of the finite domains, exact set equality with the image.",
    "technique": "bounded exhaustive enumeration of automata x all state maps x all symbol maps against the image computed by definition",
    "quick": [("rel", "c14.n3s3pk3")],
    "thorough": [("rel", "c14.n3s3pk4"), ("rel", "c14.n2s3k5")],
    "require": {"all": ["maps_injective", "maps_merging", "symbol_maps"]},
}

PLAN["C15"] = {
    "level": "exploration",
    "rule": "every automaton of TA(n,Sigma,<=k): GetCandidateTree() vs reference (L(W) subset of L(A); W empty only if A empty; operand unchanged); non-trivial = non-empty language",
    "assumptions": COMMON_ASSUMPTIONS,
    "claim": "Every automaton of the finite domains; leaf-only languages, languages without accepted leaf and unproductive final states are mandatory outcome classes.",
    "technique": "bounded exhaustive enumeration of automata against reference inclusion/emptiness",
    "quick": [("rel", "c15.n3s3pk4"), ("rel", "c15.n2s3k6")],
    "thorough": [("rel", "c15.n3s3pk5"), ("rel", "c15.n2s3k7"), ("rel", "c15.n4agk4")],
    "require": {"all": ["class_leaf_only_language", "class_no_leaf_accepted", "class_unproductive_final", "lang_empty"]},
}
