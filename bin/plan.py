"""Per-property plan: which engine checks (variant, name) make up the quick and the thorough tier,
the evidence level, the enumeration rule, the assumptions and the vacuity guards."""

COMMON_ASSUMPTIONS = [
    "reference models in /verif/engine/ref_*.hh (fixpoints / subset constructions by definition) are correct; they are cross-checked against brute-force tree/word membership by the c00.* self-checks",
    "libvata is rebuilt from the repository working tree with the source list of src/CMakeLists.txt, -O2 -DNDEBUG (rel) or -O1 ASan+UBSan (asan); g++ 12, libstdc++",
    "nothing is claimed beyond the stated bounds (number of states / rules / symbols / history depth)",
]

PLAN = {}
NOT_APPLICABLE = {}

PLAN["C01"] = {
    "level": "exploration",
    "rule": "every ordered pair (A,B) of the finite domain TA(n,Sigma,<=k rules per side, any final set) is built through the public API and "
            "checked with all 8 implemented InclParam selections (no-sim variants on raw operands under 2 state numberings, sim variants with the "
            "cli/unit-test recipe: SanitizeAutsForInclusion + UnionDisjointStates + ComputeSimulation) against the reference subset-construction inclusion; "
            "a pair is non-trivial when both languages are non-empty and A != B (pairs are distinct by construction of the index bijection)",
    "assumptions": COMMON_ASSUMPTIONS,
    "claim": "Every ordered pair of tree automata of the stated finite domains is decided by all 8 implemented inclusion variants on the real library "
             "and compared with an exact reference; exhaustive within the bounds, nothing beyond them. Small-scope exhaustiveness is the right level because "
             "the known failure modes (leaf symbols on one side, rule-less / useless states, binary rules with differently reached children) all occur with <=3 states and <=4 rules.",
    "technique": "bounded exhaustive enumeration of automata pairs x all InclParam configurations against a reference subset construction",
    "quick": [("rel", "c01.unimpl"), ("rel", "c01.n2s3k2"), ("rel", "c01.n2s2k3")],
    "thorough": [("rel", "c01.unimpl"), ("rel", "c01.n2s3k3"), ("rel", "c01.n3agk4"), ("rel", "c01.n2s2k4")],
    "require": {"all": ["expect_included", "nonemptyA_not_included", "nonemptyA_included", "class_A_nullary_B_lacks", "class_A_state_without_rules",
                        "class_useless_states", "class_binary_both", "unimpl_calls"]},
}
