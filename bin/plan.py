"""Per-property plan: which engine checks (variant, name) make up the quick and the thorough tier,
the evidence level, the enumeration rule, the assumptions and the vacuity guards."""

COMMON_ASSUMPTIONS = [
    "reference models in /verif/engine/ref_*.hh (fixpoints / subset constructions by definition) are correct; they are cross-checked against brute-force tree/word membership by the c00.* self-checks",
    "libvata is rebuilt from the repository working tree with the source list of src/CMakeLists.txt, -O2 -DNDEBUG (rel) or -O1 ASan+UBSan (asan); g++ 12, libstdc++",
    "nothing is claimed beyond the stated bounds (number of states / rules / symbols / history depth)",
]

PLAN = {}
NOT_APPLICABLE = {}
# guarded (-DVATA_VERIF) instrumentation commits in /repo
HOOK_COMMITS = ["eae8efbd", "9d95f65e", "aba84741", "8a4a5a98", "397fd205"]

PLAN["C01"] = {
    "level": "exploration",
    "rule": "every ordered pair (A,B) of the finite domain TA(n,Sigma,<=k rules per side, any final set) and, to reach 3-4 states and unary/binary/ternary symbols together, every pair of "
            "TRIMMED automata (every pair is language-equivalent to a trimmed pair because all variants trim their operands first) is built through the public API and "
            "checked with all 8 implemented InclParam selections (no-sim variants on raw operands under 2 state numberings, sim variants with the "
            "cli/unit-test recipe: SanitizeAutsForInclusion + UnionDisjointStates + ComputeSimulation) against the reference subset-construction inclusion; "
            "for every included pair the final antichain of the upward algorithm (exported by a guarded hook) is additionally checked to be sound and complete w.r.t. the reference reachable pairs, in every step of its main loop every post-image computed must be subsumed by an entry the step keeps, and every pair of the final antichain must have been taken from the work-list (expanded) at some point - the last three also on the up-only domain A in TA(2,{a,b,c:0,h:1},<=3) x B in TA(3,same,<=5) (thorough: <=4 x <=6), where two equal-size incomparable macro-states of one state wait while a smaller one arrives; in the non-recursive downward algorithm every state a choice function offers for a tuple position must be simulated by a state of the antichain kept for that position; "
            "a pair is non-trivial when both languages are non-empty and A != B (pairs are distinct by construction of the index bijection)",
    "assumptions": COMMON_ASSUMPTIONS,
    "claim": "Every ordered pair of tree automata of the stated finite domains is decided by all 8 implemented inclusion variants on the real library "
             "and compared with an exact reference; exhaustive within the bounds, nothing beyond them. Small-scope exhaustiveness is the right level because "
             "the known failure modes (leaf symbols on one side, rule-less / useless states, binary rules with differently reached children) all occur with <=3 states and <=4 rules.",
    "technique": "bounded exhaustive enumeration of automata pairs x all InclParam configurations against a reference subset construction",
    "quick": [("rel", "c01.huge.n2s2k2"), ("rel", "c01.up.abch.a3b5"), ("rel", "c01.unimpl"), ("rel", "c01.n2s3k2"), ("rel", "c01.n2s2k3"), ("rel", "c01.trim.n2s3.a3b3"), ("rel", "c01.trim.n2s2.a3b5"), ("rel", "c01.trim.n3abf.a4b2")],
    "thorough": [("rel", "c01.huge.n2s2k2"), ("rel", "c01.up.abch.a3b5"), ("rel", "c01.up.abch.a4b6"), ("rel", "c01.unimpl"), ("rel", "c01.trim.n3s3.a3b3"), ("rel", "c01.trim.n2s2.a4b6"), ("rel", "c01.trim.n2s2.a5b7"), ("rel", "c01.n2s3k3"), ("rel", "c01.n3agk4"), ("rel", "c01.n2s2k4"), ("rel", "c01.trim.n3s3.a3b4"), ("rel", "c01.trim.n3afh.a3b3"), ("rel", "c01.trim.n4s3p.a2b4"), ("rel", "c01.trim.n3abf.a5b3"), ("rel", "c01.trim.n3abfg1.a4b3"), ("rel", "c01.trim.n4abf.a4b3")],   # c01.trim.n4s3p.a3b4 and c01.trim.n3s3.a4b4 need > 25 min each: registered in the engine, not in a tier
    "require": {"all": ["expect_included", "nonemptyA_not_included", "nonemptyA_included", "class_A_nullary_B_lacks", "class_A_state_without_rules",
                        "class_useless_states", "class_binary_both", "unimpl_calls"]},
}

PLAN["C02"] = {
    "level": "exploration",
    "rule": "every ordered pair (A,B) of TA(n,Sigma,<=k per side) with overlapping state numbers: Union (no maps / empty maps / lhs map pre-filled by an earlier Union / stale "
            "entries), UnionDisjointStates (B shifted apart), Intersection and IntersectionBU (with and without product map); result language vs reference union/product, "
            "result rule-for-rule equal to the renamed union, every result state named by the maps and (intersection) L(result,s)=L(A,p)&L(B,q), operands re-read unchanged; "
            "non-trivial = both operands non-empty languages and A != B",
    "assumptions": COMMON_ASSUMPTIONS + ["the product map of Intersection is documented [out]: pre-filled product maps are not part of the domain"],
    "claim": "All pairs of the finite domains through every union/intersection entry point and map-passing mode against the reference; exhaustive within bounds.",
    "technique": "bounded exhaustive enumeration of automata pairs x entry points x map modes against reference union/product",
    "quick": [("rel", "c02.n2s3k2"), ("rel", "c02.n2s2k3"), ("rel", "c02.trim.n3s3pk3"), ("rel", "c02.trim.n3afhk3"), ("rel", "c02.trim.n3abfk3")],
    "thorough": [("rel", "c02.n2s3k3"), ("rel", "c02.n2s2k4"), ("rel", "c02.n3s3pk4"), ("rel", "c02.trim.n3afhk3"), ("rel", "c02.trim.n3s3pk4"), ("rel", "c02.trim.n4s3pk3"), ("rel", "c02.trim.n3abfk4")],
    "require": {"all": ["intersection_nonempty", "intersection_empty", "class_empty_operand", "class_useless_states"]},
}

PLAN["C03"] = {
    "level": "exploration",
    "rule": "every automaton of TA(n,Sigma,<=k rules, any final set): RemoveUnreachableStates (with/without map), RemoveUselessStates, IsLangEmpty vs reference "
            "(language equality, every remaining state reachable top-down / useful in the result, emptiness exact, operand unchanged); non-trivial = non-empty language with at least one useless state",
    "assumptions": COMMON_ASSUMPTIONS,
    "claim": "Every automaton of the finite domains; the size-shortcut shape (|reachable| = |rule owners| with different sets) is a mandatory outcome class.",
    "technique": "bounded exhaustive enumeration of automata against reference reachability/productivity fixpoints",
    "quick": [("rel", "c03.n3s3pk4"), ("rel", "c03.n2s3k6"), ("rel", "c03.n3afhk3"), ("rel", "c03.n4afhk3"), ("rel", "c03.n4abfk5")],
    "thorough": [("rel", "c03.n3s3pk5"), ("rel", "c03.n2s3k7"), ("rel", "c03.n4agk4"), ("rel", "c03.n3afhk3"), ("rel", "c03.n4afhk3"), ("rel", "c03.n4abfk5"), ("rel", "c03.n5abfk4")],
    "require": {"all": ["class_equal_counts_different_sets", "class_unreachable_rule_owner", "class_final_without_rules", "class_no_final", "lang_empty", "lang_nonempty"]},
}

PLAN["C04"] = {
    "level": "exploration",
    "rule": "every automaton of TA(n,Sigma,<=k) whose used states are exactly 0..n-1, under all n! renumberings and 2 rule insertion orders: downward simulation (all) and "
            "upward simulation (automata without useless states) compared entry by entry with the greatest fixpoint computed from the definition; non-trivial = at least 2 rules",
    "assumptions": COMMON_ASSUMPTIONS,
    "claim": "Every dense automaton of the finite domains under every bijective renumbering; relation compared entry-wise with the definition.",
    "technique": "bounded exhaustive enumeration of automata x all state bijections x insertion orders against definitional greatest-fixpoint simulations",
    "quick": [("rel", "c04.n2s3k5"), ("rel", "c04.n3s3pk4"), ("rel", "c04.n2afhk3"), ("rel", "c04.n3ahk3"), ("rel", "c04.n4abfk3"), ("rel", "c04.n3abfk6")],
    "thorough": [("rel", "c04.n2s3k6"), ("rel", "c04.n3s3pk5"), ("rel", "c04.n2afhk4"), ("rel", "c04.n3ahk3"), ("rel", "c04.n4abfk5"), ("rel", "c04.n3abfk6")],
    "require": {"all": ["trimmed", "not_trimmed", "up_nonidentity", "down_nonidentity"]},
}

PLAN["C05"] = {
    "level": "exploration",
    "rule": "every automaton of TA(n,Sigma,<=k) under 3 numberings (dense, sparse 7q+3, descending) and, for the 4-state domains, under ALL rule insertion orders (hash iteration order), plus EVERY automaton (all 2^|U| rule sets x all final sets) with 3 states over {a:0,b:0,g:1} (thorough: 4 states, 251 M automata): Reduce() vs reference (language equal, #states and #rules not larger, result is "
            "an onto homomorphic image: some map of A's states onto the result's states carries finals and rules of the result), operand unchanged; non-trivial = non-empty language and >=2 rules",
    "assumptions": COMMON_ASSUMPTIONS,
    "claim": "Every automaton of the finite domains under three numberings.",
    "technique": "bounded exhaustive enumeration of automata x numberings against reference language equality and image search",
    "quick": [("rel", "c05.n3s3pk4"), ("rel", "c05.n2s3k6"), ("rel", "c05.n4afk4"), ("rel", "c05.n4afk5.std"), ("rel", "c05.n3afhk3"), ("rel", "c05.all.n3abg1")],
    "thorough": [("rel", "c05.n4afk5"), ("rel", "c05.n4s3pk3"), ("rel", "c05.n3s3pk5"), ("rel", "c05.n2s3k7"), ("rel", "c05.n3afhk3"), ("rel", "c05.all.n3abg1"), ("rel", "c05.all.n4ag1"), ("rel", "c05.all.n4abg1")],
    "require": {"all": ["reduced_states", "class_useless_states", "lang_nonempty"]},
}

PLAN["C06"] = {
    "level": "exploration",
    "rule": "every automaton (states 0..m-1) of TA(2..4,S,<=k) for S in {a:0},{a:0,b:0},{a:0,f:1},{a:0,b:0,g:2},{a:0,b:0,f:1,g:2},{a:0,g:2},{a:0,h:3},{a:0,f:1,h:3},{a:0,b:0,f:1},{a:0,f:1,g:2}, attached to a PRIVATE OnTheFlyAlphabet "
            "in which all symbols of S are registered in every possible order (so unused registered symbols occur): Complement() vs reference (product with A empty, union with A universal over S by "
            "subset construction, no symbol outside S / wrong rank, direct membership of all trees up to height 2); non-trivial = A neither empty nor universal",
    "assumptions": COMMON_ASSUMPTIONS + ["states are numbered 0..m-1 as the library's loaders produce them; a sparse-numbering sub-check is run separately"],
    "claim": "Every automaton of the finite domains over every small ranked alphabet and registration order.",
    "technique": "bounded exhaustive enumeration of automata x alphabets x registration orders against reference product-emptiness and universality",
    "quick": [("rel", "c06.n2sAk2"), ("rel", "c06.n2sLk4"), ("rel", "c06.n2sAFk4"), ("rel", "c06.n2s2k4"), ("rel", "c06.n2s3k3"), ("rel", "c06.n2ahk3"), ("rel", "c06.n2afhk3"), ("rel", "c06.n3agk3"), ("rel", "c06.n3abfk5"), ("rel", "c06.sparse.n2s2k3"), ("rel", "c06.sparse.n3s2k3")],
    "thorough": [("rel", "c06.n2sAk2"), ("rel", "c06.n2sLk4"), ("rel", "c06.n2sAFk4"), ("rel", "c06.n2s2k5"), ("rel", "c06.n2s3k4"), ("rel", "c06.n3agk3"), ("rel", "c06.n2ahk3"), ("rel", "c06.n2afhk3"), ("rel", "c06.n3s2k4"), ("rel", "c06.n3s3pk4"), ("rel", "c06.n4agk3"), ("rel", "c06.n3afhk3"), ("rel", "c06.n3abfk5"), ("rel", "c06.n4abfk4"), ("rel", "c06.sparse.n2s2k3"), ("rel", "c06.sparse.n3s2k3")],
    "require": {"all": ["A_universal", "A_not_universal", "A_empty", "class_unused_registered_symbol"]},
}

PLAN["C14"] = {
    "level": "exploration",
    "rule": "every automaton of TA(n,Sigma,<=k) x every state map {0..n-1}->{0..n-1} plus 3 sparse/offset maps, through ReindexStates(weak translator pre-filled / allocating), "
            "ReindexStates(functor, with/without finals), ReindexStates(dst empty / pre-filled), CollapseStates, and x every symbol map Sigma->Sigma+1 fresh for TranslateSymbols: "
            "result finals and rules must equal the image sets exactly, each rule yielded once, translators hold exactly the visited states, operand unchanged; non-trivial = >=2 rules",
    "assumptions": COMMON_ASSUMPTIONS,
    "claim": "Every automaton x every state map x every symbol map of the finite domains, exact set equality with the image.",
    "technique": "bounded exhaustive enumeration of automata x all state maps x all symbol maps against the image computed by definition",
    "quick": [("rel", "c14.n3s3pk3"), ("rel", "c14.n2afhk3")],
    "thorough": [("rel", "c14.n3s3pk4"), ("rel", "c14.n2s3k5"), ("rel", "c14.n2afhk3")],
    "require": {"all": ["maps_injective", "maps_merging", "symbol_maps"]},
}

PLAN["C15"] = {
    "level": "exploration",
    "rule": "every automaton of TA(n,Sigma,<=k): GetCandidateTree() vs reference (L(W) subset of L(A); W empty only if A empty; operand unchanged); non-trivial = non-empty language",
    "assumptions": COMMON_ASSUMPTIONS,
    "claim": "Every automaton of the finite domains; leaf-only languages, languages without accepted leaf and unproductive final states are mandatory outcome classes.",
    "technique": "bounded exhaustive enumeration of automata against reference inclusion/emptiness",
    "quick": [("rel", "c15.n3s3pk4"), ("rel", "c15.n2s3k6"), ("rel", "c15.n3afhk3"), ("rel", "c15.n4afhk3"), ("rel", "c15.n4abfk5")],
    "thorough": [("rel", "c15.n3s3pk5"), ("rel", "c15.n2s3k7"), ("rel", "c15.n4agk4"), ("rel", "c15.n3afhk3"), ("rel", "c15.n4afhk3"), ("rel", "c15.n4abfk5"), ("rel", "c15.n5abfk4")],
    "require": {"all": ["class_leaf_only_language", "class_no_leaf_accepted", "class_unproductive_final", "lang_empty"]},
}

PLAN["C16"] = {
    "level": "exploration",
    "rule": "every LTS of LTS(n states, L labels, <=k edges) (isolated states included; systems with <=3 edges also with one edge inserted twice) x every partition of the states x every "
            "reflexive-transitive relation on the blocks x every output size 1..n x counter row size {regular 31, 1, 2} (guarded hook: tiny SharedCounter rows make small systems span several rows), plus the partition-free entries computeSimulation(size 0..n) and computeSimulation(), plus a structured family of LARGER systems (17, 20, 33, 40 states; one of 9 edge templates per label x 3 partitions x block preorders x EVERY output size) that crosses the size thresholds of BinaryRelation / SharedCounter with their real constants: result compared "
            "entry-wise on [0,out)^2 with the greatest simulation inside the initial relation computed by the naive fixpoint; an evaluation = one (system, partition, preorder, size); "
            "non-trivial = at least one edge and some off-diagonal pair is related or pruned",
    "assumptions": COMMON_ASSUMPTIONS,
    "claim": "Every LTS x partition x block preorder x output size of the finite domains, relation compared entry by entry with the definition.",
    "technique": "bounded exhaustive enumeration of labelled transition systems x all partitions x all block preorders against a naive greatest-fixpoint simulation",
    "quick": [("rel", "c16.n3l2k7"), ("rel", "c16.n4l1k4b3"), ("rel", "c16.n3l3k4"), ("rel", "c16.n4l2k3b3"), ("rel", "c16.family.n17n20"), ("rel", "c16.family.n33n40")],
    "thorough": [("rel", "c16.n3l2all"), ("rel", "c16.n4l1all"), ("rel", "c16.n3l3k5"), ("rel", "c16.n4l2k5b3"), ("rel", "c16.n5l1k5b3"), ("rel", "c16.family.n17n20"), ("rel", "c16.family.n33n40"), ("rel", "c16.family.n65n130"), ("asan", "c16.n3l2k5"), ("asan", "c16.n4l1k4b3"), ("asan", "c16.family.n17n20"), ("asan", "c16.family.n65")],
    "require": {"all": ["relation_pruned", "relation_kept", "output_size_16", "output_size_above_16"]},
}

PLAN["C09"] = {
    "level": "exploration",
    "rule": "every ordered pair (A,B) of FA(n states, symbols, <=k transitions per side, ANY start set, ANY final set) x {antichains, congruence depth-first, congruence breadth-first} x "
            "{raw operands with overlapping state numbers, operands prepared by SanitizeAutsForInclusion as the CLI does} vs the reference subset construction; built with NDEBUG "
            "(with assertions on the identity comparator of the antichain variant is a bare assert(false)); non-trivial = both languages non-empty and A != B",
    "assumptions": COMMON_ASSUMPTIONS + ["simulation-based NFA variants are outside the statement (ExplicitFiniteAut::ComputeSimulation is assert(false)) and are not called"],
    "claim": "Every ordered pair of NFAs of the finite domains through all three algorithms at API level and CLI level.",
    "technique": "bounded exhaustive enumeration of NFA pairs x algorithm selections against a reference subset construction",
    "quick": [("rel", "c09.n2l1"), ("rel", "c09.n2l2k3")],
    "thorough": [("rel", "c09.n2l1"), ("rel", "c09.n2l2all"), ("rel", "c09.n3l1k3"), ("rel", "c09.n3l2t3"), ("rel", "c09.trim.n3l1k4"), ("rel", "c09.trim.n3l2k3t5")],   # c09.n3l1k4, c09.n3l2t4 (270 M pairs each), c09.trim.n3l2k3, c09.trim.n3l1k5 need > 25 min: registered, not in a tier
    "require": {"all": ["expect_included", "expect_not_included", "nonemptyA_included", "class_several_start_states", "class_A_accepts_empty_word", "class_symbol_only_in_A", "class_unreachable_or_dead_state"]},
}

PLAN["C10"] = {
    "level": "exploration",
    "rule": "every NFA of FA(n,symbols,<=k, any start/final sets): Reverse, RemoveUnreachableStates, RemoveUselessStates (with/without map), GetCandidateTree, each result read through "
            "the core fields AND through DumpToString + reload (both views must denote the expected language); every ordered pair: Union (no maps / empty maps), UnionDisjointStates "
            "(shifted), Intersection (with/without map) vs reference union / product / mirror; operands unchanged; non-trivial = non-empty language(s)",
    "assumptions": COMMON_ASSUMPTIONS + ["start symbols (the nullary Timbuk symbols naming start states) carry no language; only start states do"],
    "claim": "Every NFA / ordered pair of the finite domains; empty-word acceptance, several start states and product states with one start component are mandatory outcome classes.",
    "technique": "bounded exhaustive enumeration of NFAs and NFA pairs against reference union/product/mirror/trim models",
    "quick": [("rel", "c10.single.n3l2k4"), ("rel", "c10.pairs.n2l1"), ("rel", "c10.pairs.n2l2k3")],
    "thorough": [("rel", "c10.single.n3l2k5"), ("rel", "c10.single.n4l1k5"), ("rel", "c10.pairs.n2l1"), ("rel", "c10.pairs.n2l2k4")],
    "require": {"all": ["class_accepts_empty_word", "class_several_start_states", "class_product_state_with_one_start_component", "class_both_accept_empty_word", "intersection_nonempty", "lang_empty"]},
}

HIST_ASSUMPTIONS = COMMON_ASSUMPTIONS + [
    "a state is the operation history reaching it, replayed on fresh real objects; two histories are merged only when the abstract values of all handles AND the real sharing pattern "
    "(pointer identity of every shared level read with -fno-access-control) coincide; the key of every prefix is re-computed on replay and must match",
]

PLAN["C12"] = {
    "level": "model_checking", "engine": "E-HIST",
    "rule": "breadth-first search over histories of AddTransition (8 rules colliding on parent/symbol/tuple, one symbol with arities 0,1,2; both overloads), SetStateFinal, SetStatesFinal, "
            "EraseFinalStates, Clear, copy-assign to a second handle, AreTransitionsEmpty; in every state ALL read-only views of both handles (iteration, ContainsTransition over the "
            "whole universe + foreign rules, GetAcceptTrans, operator[] for every state incl. empty(), GetUsedStates, GetFinalStates, IsStateFinal, AreTransitionsEmpty on copies) are "
            "compared with a set-of-rules + set-of-finals reference; c12.sat explores the single-handle world until no new abstract value appears (all 2^8 x 2^3 values)",
    "assumptions": HIST_ASSUMPTIONS,
    "claim": "All operation histories up to the stated depth (and, for one handle, every reachable abstract state) with every read-only view checked in every state.",
    "technique": "explicit-state breadth-first search over operation histories of the real container, reference-model comparison in every state",
    "quick": [("rel", "c12.sat"), ("rel", "c12.d7")],
    "thorough": [("rel", "c12.sat"), ("rel", "c12.d9"), ("asan", "c12.d6")],
    "require": {"all": ["transitions_into_sharing_states"]},
}

PLAN["C17"] = {
    "level": "exploration",
    "rule": "v=3 variables, values {0,1,2}: all 243 diagrams M(asgn in {0,1,X}^3, value, default) + constants (construction, copy/assign/self-assign, 3 unary ops, VoidApply1); all ordered "
            "pairs x 4 binary leaf operations incl. a non-commutative one (+VoidApply2); all triples of a 33-element sub-basis x 2 ternary ops and 18 depth-2 operation trees; ALL 6561 "
            "functions {0,1}^3->{0,1,2}: GetPaths partition, Project (every variable subset x max/min, and x a non-idempotent and a non-commutative operation against a structural reference), Rename (all order-preserving injections into 5 variables), ExtendWith, "
            "GetMtbddForPrefix; ALL ordered pairs of ALL functions over 2 (quick) and 3 (thorough: 43M pairs) variables; v=4; the v=3 domains again with the three variables placed at physical positions {6,7,8}/10, {7,8,9}/10, {0,8,16}/18, {14,15,16}/17, {7,15,32}/33 of a wider assignment (crossing the 8-variables-per-byte packing of SymbolicVarAsgn; every value read under all-0 and all-1 fillings of the unoccupied positions; Rename by shifts 1, 3, 8). Apply functors are ONE object per leaf operation for the whole life of a worker (their memo tables must not survive a call) and are compared with a fresh functor. Oracle: value for EVERY total assignment equals "
            "the pointwise result, and canonicity: one representative per function table is kept for the whole life of each worker process and operator== must hold for every later "
            "diagram with the same table. Non-trivial = operands/functions not constant or not identical",
    "assumptions": COMMON_ASSUMPTIONS + ["Project with idempotent commutative combiners (max, min: the way libvata uses it) is checked against the combination over all assignments of the removed variables; with non-idempotent operations the result of a reduced ordered diagram is defined structurally (a node exists exactly where the function depends on the variable) and is checked against that definition computed from the function table; Rename only with order-preserving maps (its documented precondition); "
                                        "GetMtbddForPrefix only with concrete prefixes", "history dependence inside one node store is covered by the per-worker persistent canonical table (different "
                                        "VERIF_SEED values rotate the block order) and exhaustively for short histories by the C18 explorer"],
    "claim": "Every diagram / pair / triple / function of the stated finite domains, checked on every total assignment, with canonicity checked against everything built earlier in the same process.",
    "technique": "bounded exhaustive enumeration of MTBDD operands and operation trees against function tables",
    "quick": [("rel", "c17.v3.base"), ("rel", "c17.v3.apply2"), ("rel", "c17.v3.trees"), ("rel", "c17.v3.allfn"), ("rel", "c17.v2.allpairs"), ("rel", "c17.v4.base"), ("rel", "c17.v4.apply2"), ("rel", "c17.v4.trees"), ("rel", "c17.w1.apply2"), ("rel", "c17.w1.trees"), ("rel", "c17.w1.allfn"), ("rel", "c17.w2.apply2"), ("rel", "c17.w2.trees"), ("rel", "c17.w2.allfn"), ("rel", "c17.w3.apply2"), ("rel", "c17.w3.trees"), ("rel", "c17.w3.allfn"), ("rel", "c17.w4.apply2"), ("rel", "c17.w4.trees"), ("rel", "c17.w4.allfn"), ("rel", "c17.w5.apply2"), ("rel", "c17.w5.trees"), ("rel", "c17.w5.allfn")],
    "thorough": [("rel", "c17.v3.base"), ("rel", "c17.v3.apply2"), ("rel", "c17.v3.trees"), ("rel", "c17.v3.allfn"), ("rel", "c17.v2.allpairs"), ("rel", "c17.v4.base"), ("rel", "c17.v4.apply2"), ("rel", "c17.v4.trees"),
                 ("rel", "c17.v3.allpairs"), ("asan", "c17.v3.apply2"), ("asan", "c17.v3.allfn"), ("rel", "c17.w1.apply2"), ("rel", "c17.w1.trees"), ("rel", "c17.w1.allfn"), ("rel", "c17.w2.apply2"), ("rel", "c17.w2.trees"), ("rel", "c17.w2.allfn"), ("rel", "c17.w3.apply2"), ("rel", "c17.w3.trees"), ("rel", "c17.w3.allfn"), ("rel", "c17.w4.apply2"), ("rel", "c17.w4.trees"), ("rel", "c17.w4.allfn"), ("rel", "c17.w5.apply2"), ("rel", "c17.w5.trees"), ("rel", "c17.w5.allfn"), ("asan", "c17.w5.allfn"), ("asan", "c17.w1.apply2")],
    "require": {"all": ["apply1", "apply2", "apply3", "depth2", "project", "project_nonidempotent", "rename", "extend", "prefix", "getpaths"]},
}

PLAN["C18"] = {
    "level": "model_checking", "engine": "E-HIST",
    "rule": "3 handle slots of OndriksMTBDD<int>, 2 variables, values {0,1}; menu of 195 operations: construct(slot, asgn in {0,1,X}^2, value, default), const, copy-construct, assign (incl. "
            "self-assignment), apply2 (or / xor; the result may be assigned over an operand), apply1, destroy. Breadth-first search until NO NEW STATE appears (c18.sat: all 33^3 = 35937 "
            "abstract states, depth 8). In every state: every live handle returns its reference function for all 4 assignments; operator== iff equal tables; the whole node store is walked "
            "(both unique tables read with -fno-access-control): every table entry consistent, every child/root present in a table, reference count of every stored node = #stored parents + "
            "#live roots; and from EVERY state the probe 'destroy all remaining handles' must bring both unique tables back to their baseline sizes. Re-run under ASan+UBSan. Plus the FAN-IN family (the number of simultaneous references to one node as an enumeration dimension): "
            "N in {255,256,257,65535,65536,65537,131072,131073} references to one leaf from roots / to one internal node from roots / to two leaves from N distinct stored parents, dropped to every 8- and 16-bit counter boundary, regrown, half overwritten by assignment, other diagrams built and dropped in between: values, unique-table membership and exact stored reference counts after every phase (a 32-bit counter boundary needs 4 G references and is out of reach)",
    "assumptions": HIST_ASSUMPTIONS + ["Project/Rename are excluded from the leak probe on purpose: the statement restricts it to construction, copy and apply"],
    "claim": "Every reachable state of the 3-handle / 2-variable world (saturated search), all invariants in every state, the leak probe from every state, also under AddressSanitizer.",
    "technique": "explicit-state breadth-first search over MTBDD handle histories to saturation, node-store invariants in every state, under ASan",
    "quick": [("rel", "c18.sat"), ("asan", "c18.d4"), ("rel", "c18.fanin"), ("asan", "c18.fanin")],
    "thorough": [("rel", "c18.sat"), ("asan", "c18.sat"), ("rel", "c18.fanin"), ("asan", "c18.fanin")],
    "require": {"all": ["transitions_into_sharing_states"]},
}

PLAN["C11"] = {
    "level": "model_checking", "engine": "E-HIST",
    "rule": "tree world: 3 slots of ExplicitTreeAut, menu of ~300 operations: new, copy-construct (full / without transitions / without finals), copy-assign (incl. self), move-construct, "
            "move-assign, AddTransition (4 rules colliding on parent/symbol/tuple), SetStateFinal, EraseFinalStates, Clear, destroy, AreTransitionsEmpty, and result-producing operations "
            "stored into any slot (also over an operand): RemoveUnreachableStates, RemoveUselessStates, Reduce, GetCandidateTree, CollapseStates, ReindexStates, ReindexStates INTO an "
            "existing destination, TranslateSymbols, UnionDisjointStates (only when the reference says the state sets are disjoint), Union, Intersection, IntersectionBU; breadth-first "
            "from the empty world and from a non-initial state with two handles sharing all storage. NFA world: 4 slots of ExplicitFiniteAut (2 operands over fixed disjoint state ranges, 2 "
            "result slots). In every state: every live handle reads exactly its reference value (rules+finals by iteration); each result satisfies its semantic relation to the operand "
            "values; IsLangEmpty / Reduce sizes / CheckInclusion (up, down) of all slot pairs are recorded and must coincide whenever the same abstract values are reached by another "
            "history; after destroying everything the process-wide tuple cache must be empty. Results beyond 6 states / 10 rules leave the explored world (op not offered)",
    "assumptions": HIST_ASSUMPTIONS + ["a moved-from handle is dead: only destroy is offered on it (the library asserts non-null cores on every other use)",
                                       "all automata use the process-wide default alphabet with pre-agreed integer symbols; the alphabet is constant during a history"],
    "claim": "All operation histories up to the stated depth over several live automata that really share storage (sharing pattern is part of the state key), all invariants in every state.",
    "technique": "explicit-state breadth-first search over operation histories of several real automata handles, value-semantics invariants in every state",
    "quick": [("rel", "c11.tree.d5"), ("rel", "c11.tree.seeded.d3"), ("rel", "c11.fa.d6")],
    "thorough": [("rel", "c11.tree.d6"), ("rel", "c11.tree.seeded.d4"), ("rel", "c11.fa.d7"), ("asan", "c11.tree.d4"), ("asan", "c11.fa.d5")],
    "require": {"all": ["transitions_into_sharing_states"]},
}

PLAN["C07"] = {
    "level": "exploration",
    "rule": "every ordered pair (A,B) of TA(n,Sigma,<=k per side) (and, to reach 3 states, of TRIMMED automata only: inclusion trims its operands first, so every pair is language-equivalent "
            "to a trimmed pair), serialised to Timbuk text and loaded into BDDTopDownTreeAut and BDDBottomUpTreeAut: top-down down-rec with/without implication cache, without simulation (raw "
            "operands) and with the simulation the library itself computes (bottom-up downward simulation of the prepared union, automata inverted by GetTopDownAut); bottom-up up-nosim, the "
            "default overload, down-rec-sim, and up-sim with the identity relation on prepared operands; each verdict vs the reference subset construction and vs the explicit encoding; all "
            "other 120+ flag combinations must throw; non-trivial = both languages non-empty and A != B. In addition, in every state of the breadth-first search over BDD operation histories of C08 "
            "(3 handles; load, copy, assign, Union, Intersection, trimming, SetStateFinal, AddTransition; from the empty world and from seeded states with two handles sharing a table) every ordered "
            "pair of live handles - a handle with itself and handles SHARING one transition table included - is compared by up_nosim and down_rec_sim (bottom-up) / down_rec with and without the "
            "implication cache (top-down) against the reference inclusion of the handles' reference values, and the operands must read back unchanged",
    "assumptions": COMMON_ASSUMPTIONS + ["16-bit symbol encoding: the domains use at most 4 symbols"],
    "claim": "Every pair of the finite domains through every implemented BDD inclusion selection in both encodings; exhaustive within bounds.",
    "technique": "bounded exhaustive enumeration of automata pairs x BDD encodings x InclParam configurations against a reference subset construction, plus explicit-state breadth-first search over operation histories with inclusion observed on every pair of handles in every state",
    "quick": [("rel", "c07.unimpl"), ("rel", "c07.n2s2k2"), ("rel", "c07.n2s3k2"), ("rel", "c07.trim.n2s2.a3b3"), ("rel", "c07.trim.n3s2.a2b3"), ("rel", "c07.trim.n3ah.a2b3"), ("rel", "c07.trim.n3abf.a4b2"), ("rel", "c07.hist.bu.d3"), ("rel", "c07.hist.td.d3"), ("rel", "c07.hist.bu.seeded1.d3"), ("rel", "c07.hist.td.seeded1.d3")],   # c07.ov.n2k3 (one symbol name, two arities) is in the thorough tier
    "thorough": [("rel", "c07.unimpl"), ("rel", "c07.n2s2k3"), ("rel", "c07.n2s3k2"), ("rel", "c07.trim.n2s2.a4b4"), ("rel", "c07.trim.n3s2.a3b3"), ("rel", "c07.trim.n3s2.a3b4"), ("rel", "c07.trim.n2s3.a4b4"), ("rel", "c07.trim.n3ah.a2b3"), ("rel", "c07.trim.n3ah.a3b3"), ("rel", "c07.trim.n3abf.a4b3"), ("rel", "c07.trim.n4ag.a2b4"), ("rel", "c07.ov.n2k3"), ("rel", "c07.hist.bu.d4"), ("rel", "c07.hist.td.d4"), ("rel", "c07.hist.bu.seeded1.d3"), ("rel", "c07.hist.td.seeded1.d3"), ("rel", "c07.hist.bu.seeded2.d3")],
    "require": {"all": ["expect_included", "expect_not_included", "nonemptyA_included", "class_binary_rules_both_trimmed", "unimpl_calls", "history_pairs_sharing_a_table", "history_pairs_not_included"]},
}

PLAN["C08"] = {
    "level": "model_checking", "engine": "E-HIST",
    "rule": "single calls (exhaustive enumeration): every automaton / ordered pair of TA(2..3,Sigma,<=k) loaded from Timbuk text into both BDD encodings: dump(load(A)) denotes L(A); Union (with/without "
            "maps), UnionDisjointStates (operands loaded with disjoint numbers), Intersection (with/without map), RemoveUnreachableStates, RemoveUselessStates (no useless state or rule left in the "
            "dump), copy/assign, GetTopDownAut are language-exact and leave the operands' languages unchanged. Histories (breadth-first search): 3 slots per encoding, menu of 159 operations: load of "
            "4 fixed automata (two pairs with overlapping state numbers), LoadFromString INTO a live automaton, copy, assign, destroy, Union, UnionDisjointStates (only when the reference says the "
            "state sets are disjoint), Intersection, RemoveUnreachableStates, RemoveUselessStates (results may overwrite an operand), GetTopDownAut, SetStateFinal, AddTransition (leaf and binary rule); searched from the empty world, from a third seeded state s0=load(M4); s1=copy(s0) with a nondeterministic operand WITHOUT final states (so that the copies can be given different final states: SetStateFinal of either state of either numbering is in the menu) and from two seeded non-initial states in which two handles already share one transition table; in every state the dump of every live slot "
            "must denote the language of the slot's reference value; the state key contains final states, the identity of every transition table and the FULL content of every distinct table "
            "(tuple/state -> MTBDD paths, read with -fno-access-control), so junk left in a shared table is part of the state",
    "assumptions": HIST_ASSUMPTIONS + ["the process-wide symbolic alphabet is pre-registered in a fixed order (a, b, g) once per worker so that symbol codes, and with them the state keys, do not depend on earlier cases"],
    "claim": "All operation histories up to the stated depth over BDD automata that share transition tables, plus exhaustive single calls over the finite domains.",
    "technique": "explicit-state breadth-first search over operation histories of BDD automata sharing transition tables + bounded exhaustive enumeration of single calls",
    "quick": [("rel", "c08.single.n2s2k3"), ("rel", "c08.single.n3s3pk3"), ("rel", "c08.single.ov.n2k4"), ("rel", "c08.pairs.n2s2k2"), ("rel", "c08.pairs.ov.trim.n2k3"), ("rel", "c08.pairs.trim.n3s3pk3"), ("rel", "c08.hist.bu.d4"), ("rel", "c08.hist.td.d4"), ("rel", "c08.hist.bu.seeded1.d3"), ("rel", "c08.hist.td.seeded1.d3"), ("rel", "c08.hist.bu.seeded2.d3"), ("rel", "c08.hist.bu.seeded3.d3"), ("rel", "c08.hist.td.seeded3.d3")],
    "thorough": [("rel", "c08.single.n2s3k4"), ("rel", "c08.single.n3s3pk3"), ("rel", "c08.pairs.n2s2k3"), ("rel", "c08.pairs.n2s3k2"), ("rel", "c08.pairs.trim.n3s3pk3"), ("rel", "c08.pairs.trim.n3abfk3"), ("rel", "c08.single.n4abfk4"), ("rel", "c08.single.ov.n2k4"), ("rel", "c08.pairs.ov.n2k3"), ("rel", "c08.pairs.ov1.n2k2"), ("rel", "c08.hist.bu.d5"), ("rel", "c08.hist.td.d5"), ("rel", "c08.hist.bu.seeded1.d4"), ("rel", "c08.hist.td.seeded1.d4"), ("rel", "c08.hist.bu.seeded2.d4"), ("rel", "c08.hist.td.seeded2.d3"), ("rel", "c08.hist.bu.seeded3.d4"), ("rel", "c08.hist.td.seeded3.d4"), ("asan", "c08.hist.bu.d3"), ("asan", "c08.hist.td.d3"), ("asan", "c08.hist.bu.seeded1.d3")],
    "require": {"all": ["transitions_into_sharing_states", "intersection_nonempty", "class_useless_states", "lang_nonempty"]},
}

PLAN["C13"] = {
    "level": "exploration",
    "rule": "(a) every AutDescription with <=3 rules over 3 state names (q, q0, 1; and with <=2 rules over the name tables {q-0, x>y, _}/{cons-2, a>, -} and {>, States, p.1}/{Final, +, a-}: every character class a name may contain, a lone '-' or '>' included) x 3 symbols with ranks 0..2 x every final set x named/anonymous: ParseString(Serialize(d)) == d, plus three textual "
            "variants of the same description (nullary rules written with '()' and with blank-only parentheses, runs of blanks/tabs, blank lines, sections reordered, no blanks at all), and for 6 rule lines EVERY placement of 4 fillers (nothing, blank, tab, run of all non-newline isspace characters) in every gap between atoms; (b) every automaton of TA(2..3,Sigma,<=3) "
            "in expl / bdd-bu / bdd-td and every NFA of FA(2..3,{a,b},<=4) (also with two start symbols on a start state) in expl_fa: load with a state dictionary, dump, load the dump with a "
            "fresh dictionary, dump: first dump == loaded description, second dump == first; (c) arbitrary text: ALL token strings up to length 5 over a 21-token alphabet (keywords, "
            "names, ':', numbers, parentheses, comma, arrow, all six std::isspace characters, byte 0xff) and every single and double token edit (delete / duplicate / replace by each token) of three valid templates, "
            "plus ALL byte strings up to length 3 (16.7 M, every one of the 256 byte values) and every single-byte replace/insert/delete edit of the templates, each fed to TimbukParser::ParseString and LoadFromString of all four automaton classes, also under ASan+UBSan with a 5 s per-case limit: outcome must be success or std::exception; "
            "crash, sanitizer report, foreign exception or timeout is a violation. Non-trivial = at least one rule / every text case",
    "assumptions": COMMON_ASSUMPTIONS + ["'all byte strings' is decided only for the bounded token language above (deviation from well-formed text is bounded, not the length of the well-formed part)"],
    "claim": "Every description / automaton / token string / token edit of the stated finite domains.",
    "technique": "bounded exhaustive enumeration of descriptions, automata and token strings (all strings to a length, all 1- and 2-edit deviations from valid templates), sanitizer as crash oracle",
    "quick": [("rel", "c13.desc.k3"), ("rel", "c13.desc.names1.k2"), ("rel", "c13.desc.names2.k2"), ("rel", "c13.enc.tree.names.n2k3"), ("rel", "c13.enc.tree.n2s2k3"), ("rel", "c13.enc.tree.n3s3pk3"), ("rel", "c13.enc.tree.ov.n2k3"), ("rel", "c13.enc.fa.n3l2k4"), ("rel", "c13.gaps"), ("rel", "c13.text.len5"), ("rel", "c13.edit2"), ("rel", "c13.bytes.len3"), ("rel", "c13.byteedit1"), ("asan", "c13.text.len4"), ("asan", "c13.edit1"), ("asan", "c13.bytes.len2"), ("asan", "c13.byteedit1")],
    "thorough": [("rel", "c13.desc.k3"), ("rel", "c13.desc.names1.k3"), ("rel", "c13.desc.names2.k3"), ("rel", "c13.enc.tree.names.n2k3"), ("rel", "c13.enc.tree.n2s2k3"), ("rel", "c13.enc.tree.n3s3pk3"), ("rel", "c13.enc.tree.ov.n2k3"), ("rel", "c13.enc.fa.n3l2k4"), ("rel", "c13.gaps"), ("asan", "c13.gaps"), ("rel", "c13.text.len5"), ("rel", "c13.edit2"), ("rel", "c13.bytes.len3"), ("rel", "c13.byteedit1"), ("asan", "c13.text.len5"), ("asan", "c13.edit2"), ("asan", "c13.bytes.len3"), ("asan", "c13.byteedit1")],
    "require": {"all": ["class_empty_final_set", "class_empty_transition_section", "class_nullary_rule", "class_start_state_with_two_start_symbols", "dump_load_cycles"]},
}

PLAN["C19"] = {
    "level": "exploration",
    "rule": "small scope, complete: every automaton of TA(3,{a:0,f:1,g:2},<=3) under ALL 6 state bijections x 2 embeddings (dense, 7q+3) x ALL 6 symbol-id permutations x ALL rule insertion "
            "orders (<=6): emptiness verdict, |states|/|rules| of Reduce / RemoveUselessStates / RemoveUnreachableStates, downward and (trimmed) upward simulation mapped back through the "
            "renaming must equal those of the base variant; the same for every TRIMMED automaton of TA(3,{a:0,h:3},<=3) and TA(3,{a:0,g:2},<=4) (thorough: TA(3,{a:0,f:1,g:2},<=4), TA(4,{a:0,g:2},<=4)) - contexts with two siblings / several binary rules sharing a context, which the upward simulation needs; DUPLICATED-STATE TWINS: every trimmed automaton of TA(3,{a:0,g:2},<=3), TA(3,{a:0,f:1,g:2},<=3), TA(2,{a:0,b:0,f:1,g:2},<=4) with every state split into two copies (rules with equal left-hand sides and different parents, n+1 states), with no reference model: invariance under all (n+1)! bijections x 2 constructions, the twins simulate each other downward and upward, all 8 inclusion algorithms say A = twin form, Reduce merges the twins; trimmed pairs TA(2,{a:0,b:0,g:2}) A<=2 x B<=4 under all renamings with ALL 8 variants; every pair of TA(2,{a:0,b:0,g:2}) with <=3 rules in total under all bijections of both operands x embeddings x symbol permutations x "
            "insertion orders x 8 inclusion variants vs the reference verdict. Corpus, complete over finite sets: every file of automata/small_timbuk (all 95^2 ordered pairs), "
            "tests/aut_timbuk_smaller (20 automata of 159-1402 rules; thorough: all 400 ordered pairs against the shipped answer table), automata/moderate_artmc_timbuk (27 automata): all 8 "
            "variants agree, A<=A, A<=AuB, AnB<=A (Intersection and IntersectionBU, which must be equivalent), A<=B implies AuB<=B and A<=AnB, transitivity on every triple whose premises "
            "hold, A equivalent to Reduce / RemoveUselessStates / RemoveUnreachableStates / reload(dump) / 4 listed renamings / reversed rule order, result sizes equal under the listed "
            "renamings. Calls over the per-case limit (20 s) are reported as capped, never as coverage or violation",
    "assumptions": COMMON_ASSUMPTIONS + ["for automata with hundreds of states the n! bijections cannot be enumerated: 'any bijection' is decided up to n=3 and checked on a FIXED LISTED family (reversal, cyclic "
                                        "shifts, 7q+3, reversed rule order) on the corpus; no randomness", "corpus checks are metamorphic (the library's own inclusion is the judge); small-scope checks use the reference model"],
    "claim": "Complete over all renamings/orders for the small domains; complete over the finite shipped corpus for the listed laws and the listed renaming family.",
    "technique": "bounded exhaustive enumeration of automata x all state bijections x symbol permutations x insertion orders; exhaustive pair/triple enumeration over the finite shipped corpus (metamorphic laws)",
    "quick": [("rel", "c19.small.single.n3k3"), ("rel", "c19.small.single.trim.n3ahk3"), ("rel", "c19.small.single.trim.n3agk4"), ("rel", "c19.small.dup.n3agk3"), ("rel", "c19.small.dup.n3s3pk3"), ("rel", "c19.small.dup.n2s3k4"), ("rel", "c19.small.pairs.trim.n2s2.a2b4.all8"), ("rel", "c19.small.pairs.n2t3"), ("rel", "c19.small.pairs.trim.n2s3.a2b3"), ("rel", "c19.small.pairs.trim.n2s2.a3b3"), ("rel", "c19.corpus.small.single"), ("rel", "c19.corpus.small.pairs"), ("rel", "c19.corpus.smaller.single"),
              ("rel", "c19.corpus.smaller.triples"), ("rel", "c19.corpus.moderate.single")],
    "thorough": [("rel", "c19.small.single.n3k3"), ("rel", "c19.small.single.trim.n3ahk3"), ("rel", "c19.small.single.trim.n3agk4"), ("rel", "c19.small.single.trim.n3s3pk4"), ("rel", "c19.small.single.trim.n4agk4"), ("rel", "c19.small.dup.n3agk3"), ("rel", "c19.small.dup.n3s3pk3"), ("rel", "c19.small.dup.n2s3k4"), ("rel", "c19.small.pairs.trim.n2s2.a2b4.all8"), ("rel", "c19.small.dup.n3agk4"), ("rel", "c19.small.pairs.trim.n2s2.a3b3.all8"), ("rel", "c19.small.pairs.n2k2"), ("rel", "c19.small.pairs.trim.n2s3.a3b3"), ("rel", "c19.small.pairs.trim.n2s2.a3b5"), ("rel", "c19.small.pairs.trim.n3abf.a4b2"), ("rel", "c19.corpus.small.single"), ("rel", "c19.corpus.small.pairs"), ("rel", "c19.corpus.smaller.single"),
                 ("rel", "c19.corpus.smaller.triples"), ("rel", "c19.corpus.moderate.single"), ("rel", "c19.corpus.smaller.pairs")],
    "require": {"all": ["variants", "calls", "expect_not_included", "equivalence_checks", "variant_calls", "law_checks", "transitivity_triples_with_both_premises"]},
}

_C20_ASAN_QUICK = ["c01.n2s2k2", "c01.trim.n2s3.a3b3", "c02.n2s3k2", "c03.n3s3pk3", "c03.n3afhk3", "c04.n2s3k4", "c04.n3s3pk3", "c05.n3s3pk3", "c06.n2s2k3", "c06.n2sAFk4", "c06.sparse.n2s2k3",
                   "c07.n2s2k2", "c07.trim.n3ah.a2b3", "c08.single.n2s2k3", "c08.pairs.trim.n2s2k3", "c08.hist.bu.d3", "c08.hist.td.d3", "c09.n2l1", "c10.single.n3l2k3", "c10.pairs.n2l1",
                   "c11.tree.d4", "c11.fa.d5", "c12.d5", "c14.n3s3pk2", "c15.n3s3pk3", "c15.n3afhk3", "c16.n3l2k4", "c16.family.n17n20", "c16.family.n65", "c17.v3.base", "c17.v3.apply2", "c17.v3.trees", "c17.v3.allfn", "c18.d3",
                   "c13.text.len3", "c13.enc.tree.n2s2k3", "c13.enc.fa.n2l2k3", "c19.corpus.small.single", "c19.corpus.smaller.single",
                   "c17.w2.apply2", "c17.w5.allfn", "c18.fanin", "c19.small.dup.n3agk3", "c19.small.single.trim.n3ahk3", "c13.enc.tree.names.n2k3", "c13.desc.names1.k2"]
_C20_DIFF_QUICK = ["c01.n2s2k2", "c02.n2s3k2", "c03.n3s3pk3", "c05.n3s3pk3", "c06.n2s2k3", "c07.n2s2k2", "c08.single.n2s2k3", "c08.pairs.trim.n2s2k3", "c09.n2l1", "c10.single.n3l2k3", "c10.pairs.n2l1",
                   "c14.n3s3pk2", "c15.n3s3pk3", "c16.n3l2k4", "c17.v3.apply2", "c04.n2s3k4", "c17.w5.allfn", "c19.small.dup.n3agk3"]
PLAN["C20"] = {
    "level": "exploration",
    "rule": "the exhaustive workloads of C01-C19 (their small bounds in the quick tier, their quick bounds in the thorough tier) are re-run (1) in a build with AddressSanitizer + "
            "UndefinedBehaviorSanitizer + _GLIBCXX_ASSERTIONS: any sanitizer report, fatal signal or hang attributed to a single case is a violation (semantic mismatches are NOT counted here, they "
            "belong to the other properties); (2) in two builds whose automatic variables and fresh heap blocks hold different garbage (-ftrivial-auto-var-init=zero / pattern, MALLOC_PERTURB_=0 / "
            "165): every observable output of every case (read-backs, dumps, verdicts, relation matrices, MTBDD tables - reported by the glue code) is folded into a digest and the two digests "
            "must be identical, else some output depends on an indeterminate value; (3) thorough only: a slice under valgrind memcheck. Non-trivial counts are those of the underlying workloads",
    "assumptions": COMMON_ASSUMPTIONS + ["absence of sanitizer reports on the bounded space, not a proof of memory safety; _GLIBCXX_DEBUG is not used (libvata compares value-initialised std::set iterators, which "
                                        "debug mode aborts on although every shipped standard library defines it)", "ASLR is disabled (personality) so that address-dependent container orders are the same in both differential builds"],
    "claim": "No sanitizer report / crash / hang on any execution of the bounded exhaustive workloads in all four encodings, and no observable output that depends on uninitialised memory.",
    "technique": "the bounded exhaustive enumerations and history searches of the other properties re-executed under ASan/UBSan, plus an auto-var-init / heap-perturbation differential over all observable outputs",
    "only_classes": ["crash", "hang"],
    "quick": [("asan", c) for c in _C20_ASAN_QUICK],
    "thorough": [("asan", c) for c in _C20_ASAN_QUICK + ["c05.n4afk4", "c08.pairs.n2s2k2", "c19.corpus.small.pairs", "c01.n2s2k3", "c01.trim.n2s2.a3b5", "c02.n2s2k3", "c03.n3s3pk4", "c05.n3s3pk4", "c07.n2s3k2", "c08.pairs.trim.n3s3pk3", "c09.n2l2k3", "c10.pairs.n2l2k3",
                                                           "c10.single.n3l2k4", "c11.tree.d5", "c12.d6", "c14.n3s3pk3", "c16.n3l2k5", "c16.n4l1k4b3", "c18.sat", "c13.text.len4", "c13.edit1", "c19.small.single.n3k2"]],
    "differential": {"quick": _C20_DIFF_QUICK, "thorough": _C20_DIFF_QUICK + ["c01.n2s2k3", "c02.n2s2k3", "c07.n2s3k2", "c08.pairs.trim.n3s3pk3", "c09.n2l2k3", "c10.pairs.n2l2k3", "c16.n3l2k5"]},
    "valgrind": {"quick": [], "thorough": ["c07.unimpl", "c08.single.n2s2k3", "c10.pairs.n2l1", "c01.n2s2k2"]},
    "require": {"all": ["differential_workloads_compared"]},
    "deadline_s": {"quick": 1500, "thorough": 21600},
}
