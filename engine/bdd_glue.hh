// Glue between the reference TA model and the two BDD encodings (via Timbuk text, as a user would).
#pragma once
#include "domain.hh"
#include <vata/bdd_bu_tree_aut.hh>
#include <vata/bdd_td_tree_aut.hh>
#include <vata/parsing/timbuk_parser.hh>
#include <vata/serialization/timbuk_serializer.hh>

namespace bddg {

// Parse Timbuk text into a model automaton; state names are mapped to fresh numbers (only languages are compared),
// symbol names through `symIds` (unknown symbols get ids >= 100).
inline ref::TA modelOfText(const std::string& txt, const dom::Alphabet& sig) {
  VATA::Parsing::TimbukParser par; VATA::Util::AutDescription d = par.ParseString(txt);
  std::map<std::string, size_t> st; auto sid = [&](const std::string& n) { auto it = st.find(n); if (it != st.end()) return it->second; size_t k = st.size(); st[n] = k; return k; };
  std::map<std::string, int> sy; for (size_t i = 0; i < sig.names.size(); i++) sy[std::string(sig.names[i]) + ":" + std::to_string(sig.ranks[i])] = (int)i;   // a symbol is a (name, arity) pair
  ref::TA A; for (auto& f : d.finalStates) A.finals.insert(sid(f));
  for (auto& t : d.transitions) { ref::Rule r; auto it = sy.find(t.second + ":" + std::to_string(t.first.size())); if (it == sy.end()) { int k = 100 + (int)sy.size(); sy[t.second + ":" + std::to_string(t.first.size())] = k; r.sym = k; } else r.sym = it->second; for (auto& c : t.first) r.ch.push_back(sid(c)); r.par = sid(t.third); A.rules.insert(r); }
  return A;
}
template <class Aut> inline Aut load(const ref::TA& A, const dom::Alphabet& sig) {
  VATA::Parsing::TimbukParser par; Aut x; x.LoadFromString(par, dom::timbuk(A, sig)); return x;
}
// load with a caller-owned dictionary AND counter, so that several automata get disjoint state numbers
template <class Aut> inline Aut loadD(const ref::TA& A, const dom::Alphabet& sig, VATA::AutBase::StateDict& sd, VATA::AutBase::StateType& cnt) {
  VATA::Parsing::TimbukParser par; Aut x; VATA::AutBase::StringToStateTranslWeak tr(sd, [&cnt](const std::string&) { return cnt++; }); x.LoadFromString(par, dom::timbuk(A, sig), tr); return x;
}
template <class Aut> inline std::string dumpText(const Aut& x) { VATA::Serialization::TimbukSerializer ser; std::string t = x.DumpToString(ser); verif::obs(t); return t; }
template <class Aut> inline ref::TA modelOf(const Aut& x, const dom::Alphabet& sig) { return modelOfText(dumpText(x), sig); }

}  // namespace bddg
