// C01 — explicit tree-automata inclusion is exact under every implemented algorithm selection.
// E-ENUM: every ordered pair of a TA domain x 8 InclParam selections (x numbering variants) vs ref::included.
#include "runner.hh"
#include "domain.hh"
#include <vata/incl_param.hh>
#include <vata/sim_param.hh>
#include "explicit_tree_aut_core.hh"
#include "loadable_aut.hh"
#include "explicit_tree_incl_up.hh"

namespace VATA { extern void (*verifDownwardPostObserver)(const std::vector<size_t>&, const std::vector<size_t>&); }   // guarded hook in src/explicit_tree_incl_down.cc
namespace VATA { extern void (*verifUpwardInclusionObserver)(size_t, const std::vector<size_t>&); extern void (*verifUpwardInclusionStepObserver)(int, size_t, const std::vector<size_t>&); }   // guarded hook in src/explicit_tree_incl_up.cc

using namespace verif; using namespace VATA;

namespace c01 {

// ---- stronger oracle for the upward antichain algorithm: when it answers 'included', its final antichain (exported through the guarded hook)
// must be sound (every pair is a reachable pair of the reference subset construction) and complete (every reachable pair (q,S) is
// subsumed by a stored pair (q,S') with S' a subset of S).  A lost or wrongly pruned macro-state shows here even when the verdict is still right.
static std::vector<std::pair<size_t, std::vector<size_t>>>* g_collected = nullptr;
static void collectPair(size_t q, const std::vector<size_t>& S) { if (g_collected) g_collected->push_back({q, S}); }
// step-level invariant: within one step (one fixed pair, one rule) every computed post-image must be subsumed by an entry of the step's local antichain
struct StepLog { std::vector<std::pair<size_t, std::vector<size_t>>> posts, kept; std::set<std::pair<size_t, std::vector<size_t>>> popped; bool bad = false; std::string why; };
static StepLog* g_step = nullptr;
static void stepObserver(int kind, size_t q, const std::vector<size_t>& S) { if (!g_step) return; StepLog& L = *g_step;
  if (kind == 0) { std::vector<size_t> t(S); std::sort(t.begin(), t.end()); L.popped.insert({q, t}); return; }   // the pair taken from the work-list (hook 5)
  if (kind == 1) L.posts.push_back({q, S}); else if (kind == 2) L.kept.push_back({q, S});
  else { for (auto& p : L.posts) { bool sub = false; for (auto& k : L.kept) if (k.first == p.first && std::includes(p.second.begin(), p.second.end(), k.second.begin(), k.second.end())) { sub = true; break; }
      if (!sub && !L.bad) { L.bad = true; L.why = "post-image (" + std::to_string(p.first) + ",{"; for (auto x : p.second) L.why += std::to_string(x) + " "; L.why += "}) computed in a step is not subsumed by any entry the step keeps:"; for (auto& k : L.kept) { L.why += " (" + std::to_string(k.first) + ",{"; for (auto x : k.second) L.why += std::to_string(x) + " "; L.why += "})"; } } }
    L.posts.clear(); L.kept.clear(); } }
static void antichainCheck(const ExplicitTreeAut& a, const ExplicitTreeAut& b, Ctx& c, const std::string& what, uint64_t w) {
  try { ExplicitTreeAut a2(a), b2(b); AutBase::StateType st = AutBase::SanitizeAutsForInclusion(a2, b2); ref::TA A2 = dom::readBack(a2), B2 = dom::readBack(b2);
    std::vector<std::pair<size_t, std::vector<size_t>>> got; g_collected = &got; VATA::verifUpwardInclusionObserver = &collectPair; StepLog steps; g_step = &steps; VATA::verifUpwardInclusionStepObserver = &stepObserver;
    bool r = ExplicitUpwardInclusion::Check(static_cast<const ExplicitTreeAutCore&>(*a2.core_), static_cast<const ExplicitTreeAutCore&>(*b2.core_), Util::Identity(st));
    VATA::verifUpwardInclusionObserver = nullptr; g_collected = nullptr; VATA::verifUpwardInclusionStepObserver = nullptr; g_step = nullptr; c.count("antichain_checks");
    if (steps.bad) { c.viol("upward antichain (internal)", "post_image_dropped_without_being_subsumed", {}, what + "\nprepared A: " + A2.str() + " | prepared B: " + B2.str() + "\n" + steps.why, w); return; }
    if (!r) return; c.count("antichain_checks_included");
    // every pair of the final antichain must have been taken from the work-list (= expanded as the fixed position) at some point: a pair that is dropped from the
    // work-list but stays in the antichain is never expanded, although it keeps pruning others (seed C01e)
    for (auto& p : got) { std::vector<size_t> t(p.second); std::sort(t.begin(), t.end()); if (!steps.popped.count({p.first, t})) { std::string e = "(" + std::to_string(p.first) + ",{"; for (auto x : t) e += std::to_string(x) + " "; e += "})";
        c.viol("upward antichain (internal)", "antichain_entry_never_taken_from_the_worklist", {}, what + "\nprepared A: " + A2.str() + " | prepared B: " + B2.str() + "\nthe final antichain holds " + e + ", which was never expanded", w); return; } }
    auto R = ref::reachablePairs(A2, B2); std::set<std::pair<size_t, std::set<size_t>>> G; for (auto& p : got) G.insert({p.first, std::set<size_t>(p.second.begin(), p.second.end())});
    auto show = [](const std::set<std::pair<size_t, std::set<size_t>>>& X) { std::string s; for (auto& p : X) { s += "(" + std::to_string(p.first) + ",{"; for (auto q : p.second) s += std::to_string(q) + " "; s += "}) "; } return s; };
    for (auto& g : G) if (!R.count(g)) { c.viol("upward antichain (internal)", "stored_pair_is_not_reachable", {}, what + "\nprepared A: " + A2.str() + " | prepared B: " + B2.str() + "\nantichain: " + show(G) + "\nreachable pairs: " + show(R), w); return; }
    for (auto& rp : R) { bool sub = false; for (auto& g : G) if (g.first == rp.first && std::includes(rp.second.begin(), rp.second.end(), g.second.begin(), g.second.end())) { sub = true; break; }
      if (!sub) { c.viol("upward antichain (internal)", "reachable_pair_not_subsumed_by_the_antichain", {}, what + "\nprepared A: " + A2.str() + " | prepared B: " + B2.str() + "\nantichain: " + show(G) + "\nreachable pairs: " + show(R), w); return; } }
    if (G.size() > R.size()) c.count("antichain_bigger_than_reachable");
  } catch (std::exception& e) { VATA::verifUpwardInclusionObserver = nullptr; g_collected = nullptr; VATA::verifUpwardInclusionStepObserver = nullptr; g_step = nullptr; c.viol("upward antichain (internal)", "exception", {}, what + " " + e.what(), w); }
}

struct Variant { const char* name; bool down, rec, opt, sim; };
static const Variant VARIANTS[8] = {
  {"up_nosim", false, false, false, false}, {"up_sim", false, false, false, true},
  {"down_nonrec_nosim", true, false, false, false}, {"down_nonrec_sim", true, false, false, true},
  {"down_rec_nosim", true, true, false, false}, {"down_rec_sim", true, true, false, true},
  {"down_rec_opt_nosim", true, true, true, false}, {"down_rec_opt_sim", true, true, true, true}};

static InclParam mkParam(const Variant& v) {
  InclParam ip; ip.SetAlgorithm(InclParam::e_algorithm::antichains);
  ip.SetDirection(v.down ? InclParam::e_direction::downward : InclParam::e_direction::upward);
  ip.SetUseRecursion(v.rec); ip.SetUseDownwardCacheImpl(v.opt); ip.SetUseSimulation(v.sim); return ip;
}

// ---- internal oracle for the non-recursive downward algorithm (guarded hook): for every tuple position, every state a choice function offers must be
// simulated by a state of the antichain the algorithm keeps for that position (with the identity preorder: must be in it)
static const AutBase::StateDiscontBinaryRelation* g_curSim = nullptr;   // null = identity
std::string g_internalViolation;
static void downPostObserver(const std::vector<size_t>& offered, const std::vector<size_t>& kept) {
  if (!g_internalViolation.empty()) return;
  for (auto r : offered) { bool ok = false; for (auto p : kept) if (g_curSim ? g_curSim->get(r, p) : r == p) { ok = true; break; }
    if (!ok) { g_internalViolation = "state " + std::to_string(r) + " offered for a tuple position is not simulated by any state the algorithm keeps for it: offered {"; for (auto x : offered) g_internalViolation += std::to_string(x) + " "; g_internalViolation += "} kept {"; for (auto x : kept) g_internalViolation += std::to_string(x) + " "; g_internalViolation += "}"; return; } }
  for (auto p : kept) if (std::find(offered.begin(), offered.end(), p) == offered.end()) { g_internalViolation = "the antichain kept for a tuple position holds state " + std::to_string(p) + " that no choice offered"; return; }
}
// returns 0/1 verdict, 2 = std::exception, 3 = other exception
static int callInclRaw(const ExplicitTreeAut& a0, const ExplicitTreeAut& b0, const Variant& v, std::string* what);
int callIncl(const ExplicitTreeAut& a0, const ExplicitTreeAut& b0, const Variant& v, std::string* what = nullptr) { int r = callInclRaw(a0, b0, v, what); verif::obs((uint64_t)r + 17); return r; }
static int callInclRaw(const ExplicitTreeAut& a0, const ExplicitTreeAut& b0, const Variant& v, std::string* what) {
  try {
    InclParam ip = mkParam(v);
    struct Guard { Guard(bool on) { if (on) VATA::verifDownwardPostObserver = &downPostObserver; } ~Guard() { VATA::verifDownwardPostObserver = nullptr; g_curSim = nullptr; } } guard(v.down && !v.rec);
    if (!v.sim) return ExplicitTreeAut::CheckInclusion(a0, b0, ip) ? 1 : 0;
    // recipe of cli/operations.hh and unit_tests/tree_aut_test.hh
    ExplicitTreeAut a(a0), b(b0);
    AutBase::StateType st = AutBase::SanitizeAutsForInclusion(a, b);
    ExplicitTreeAut u = ExplicitTreeAut::UnionDisjointStates(a, b);
    SimParam sp; sp.SetNumStates(st);
    sp.SetRelation(v.down ? SimParam::e_sim_relation::TA_DOWNWARD : SimParam::e_sim_relation::TA_UPWARD);
    AutBase::StateDiscontBinaryRelation sim = u.ComputeSimulation(sp);
    ip.SetSimulation(&sim); g_curSim = &sim;
    return ExplicitTreeAut::CheckInclusion(a, b, ip) ? 1 : 0;
  } catch (std::exception& e) { if (what) *what = e.what(); return 2; } catch (...) { return 3; }
}

std::vector<std::string> pairFeatures(const ref::TA& A, const ref::TA& B) {
  std::vector<std::string> f;
  auto na = dom::nullarySyms(A), nb = dom::nullarySyms(B);
  bool oneSided = false; for (auto s : na) if (!nb.count(s)) oneSided = true;
  if (oneSided) f.push_back("A_has_nullary_symbol_B_lacks");
  if (dom::hasBinary(A) || dom::hasBinary(B)) f.push_back("binary_rule");
  if (dom::hasUseless(A) || dom::hasUseless(B)) f.push_back("useless_states");
  return f;
}

// source of pairs: either all pairs of one domain with a bound on the total rule count, or the full product of two (trimmed) domains
struct PairSrc { std::shared_ptr<dom::TADomain> D, DB; std::shared_ptr<dom::PairIndex> P; uint64_t total = 0;
  std::pair<ref::TA, ref::TA> get(uint64_t idx) const { if (P) { auto ij = P->get(idx); return {D->get(ij.first), D->get(ij.second)}; } return {D->get(idx / DB->size()), DB->get(idx % DB->size())}; } };
static bool g_upOnly = false;   // only the upward algorithm without simulation + its internal oracles (used to reach bigger B operands)
static bool g_hugeNumbers = false;   // third numbering: sparse state numbers in the millions / beyond 2^40 (raw operands, no-simulation variants)
static void runSrc(Env& env, const std::string& stage, PairSrc S, int n, bool numberings);
static void runDomain(Env& env, const std::string& stage, int n, const dom::Alphabet& sig, int perSide, int totalMax, bool numberings) {
  PairSrc S; S.D = std::make_shared<dom::TADomain>(n, sig, perSide); S.P = std::make_shared<dom::PairIndex>(*S.D, totalMax); S.total = S.P->total;
  env.noteNum(stage + ".automata", S.D->size()); env.noteNum(stage + ".rule_universe", S.D->U.size()); runSrc(env, stage, S, n, numberings); }
// pairs of TRIMMED automata (no useless state, non-empty language): the no-simulation variants trim their operands first and the simulation recipe
// does so explicitly, so every pair is language-equivalent to a trimmed pair; this reaches more states / rules / symbols than the full domains can
static void runTrim(Env& env, const std::string& stage, int n, const dom::Alphabet& sig, int ka, int kb, bool numberings) {
  PairSrc S; S.D = std::make_shared<dom::TADomain>(n, sig, ka, false, true); S.D->keepTrimmedOnly(); S.DB = std::make_shared<dom::TADomain>(n, sig, kb, false, true); S.DB->keepTrimmedOnly(); S.total = (uint64_t)S.D->size() * S.DB->size();
  env.noteNum(stage + ".trimmed_automata_A", S.D->size()); env.noteNum(stage + ".trimmed_automata_B", S.DB->size()); runSrc(env, stage, S, n, numberings); }
static void runTrim2(Env& env, const std::string& stage, int nA, int nB, const dom::Alphabet& sig, int ka, int kb) {
  PairSrc S; S.D = std::make_shared<dom::TADomain>(nA, sig, ka, false, true); S.D->keepTrimmedOnly(); S.DB = std::make_shared<dom::TADomain>(nB, sig, kb, false, true); S.DB->keepTrimmedOnly(); S.total = (uint64_t)S.D->size() * S.DB->size();
  env.noteNum(stage + ".trimmed_automata_A", S.D->size()); env.noteNum(stage + ".trimmed_automata_B", S.DB->size()); runSrc(env, stage, S, nB, false); }
static void runSrc(Env& env, const std::string& stage, PairSrc S, int n, bool numberings) {
  auto D = S.D;
  ParallelOpts o; o.stage = stage; o.size = S.total; o.block = 512; o.caseTimeout = 10;
  o.describe = [D, S](uint64_t idx) { auto ab = S.get(idx); return "A: " + D->str(ab.first) + " | B: " + D->str(ab.second); };
  o.run = [D, S, numberings, n](uint64_t idx, Ctx& c) {
    auto ab = S.get(idx); ref::TA A = ab.first, B = ab.second;
    bool expect = ref::included(A, B);
    bool eA = ref::emptyLang(A), eB = ref::emptyLang(B);
    c.evals();
    if (!eA && !eB && A != B) c.nontrivial();
    c.count(expect ? "expect_included" : "expect_not_included");
    if (!eA) c.count(expect ? "nonemptyA_included" : "nonemptyA_not_included");
    auto na = dom::nullarySyms(A), nb = dom::nullarySyms(B); for (auto s : na) if (!nb.count(s)) { c.count("class_A_nullary_B_lacks"); break; }
    if (dom::hasRulelessState(A)) c.count("class_A_state_without_rules");
    if (dom::hasUseless(A) || dom::hasUseless(B)) c.count("class_useless_states");
    if (dom::hasBinary(A) && dom::hasBinary(B)) c.count("class_binary_both");
    if (c.wantSample() && !eA && !eB && A != B && A.rules.size() >= 2) c.sample("A: " + D->str(A) + " | B: " + D->str(B) + " | included=" + (expect ? "1" : "0"));
    int numb = numberings ? 2 : 1; if (g_hugeNumbers) numb = 3;
    for (int nv = 0; nv < numb; nv++) {
      ref::TA A2 = A, B2 = B;
      if (nv == 2) { A2 = ref::mapStatesF(A, [](size_t q) { return (size_t)1000003 * q + 17; }); B2 = ref::mapStatesF(B, [](size_t q) { return ((size_t)1 << 40) + 3 * q; }); c.count("class_huge_sparse_state_numbers"); }
      if (nv == 1) { A2 = ref::shift(A, 5); B2 = ref::mapStatesF(B, [n](size_t q) { return (size_t)(n - 1) - q; }); }
      ExplicitTreeAut a = dom::build(A2), b = dom::build(B2, nv == 1);
      antichainCheck(a, b, c, "A: " + D->str(A2) + " | B: " + D->str(B2), A.rules.size() + B.rules.size());
      for (auto& v : VARIANTS) {
        if (g_upOnly && (v.down || v.sim)) continue;
        if (nv >= 1 && v.sim) continue;   // sim variants always see prepared operands; renumbering is covered by nv==0 + C19
        std::string what; g_internalViolation.clear(); int got = callIncl(a, b, v, &what);
        c.count("calls");
        if (!g_internalViolation.empty()) { c.viol(std::string("downward per-position antichain (internal)/") + v.name, "offered_state_not_covered_by_kept_antichain", {}, "A: " + D->str(A2) + " | B: " + D->str(B2) + " | variant=" + v.name + " (state numbers are those of the prepared operands)\n" + g_internalViolation + "\n--- A (timbuk)\n" + dom::timbuk(A2, D->sig, "A") + "--- B (timbuk)\n" + dom::timbuk(B2, D->sig, "B"), A.rules.size() + B.rules.size()); g_internalViolation.clear(); }
        if (got == (expect ? 1 : 0)) continue;
        std::string cls = got >= 2 ? "exception" : got == 1 ? "says_included_but_is_not" : "says_not_included_but_is";
        auto feats = pairFeatures(A, B); 
        c.viol(std::string("CheckInclusion/") + v.name, cls, feats,
               "A: " + D->str(A2) + " | B: " + D->str(B2) + " | variant=" + v.name + " expected=" + (expect ? "1" : "0") + " got=" + std::to_string(got) + (what.empty() ? "" : " what=" + what) +
               "\n--- A (timbuk)\n" + dom::timbuk(A2, D->sig, "A") + "--- B (timbuk)\n" + dom::timbuk(B2, D->sig, "B"),
               A.rules.size() + B.rules.size());
      }
    }
  };
  env.parallel(o);
}

// unimplemented flag combinations must throw NotImplementedException (never answer)
static void unimplemented(Env& env) {
  auto D = std::make_shared<dom::TADomain>(2, dom::Sigma2(), 1);
  uint64_t M = D->size();
  ParallelOpts o; o.stage = "c01.unimpl"; o.size = M * M; o.block = 64;
  o.run = [D, M](uint64_t idx, Ctx& c) {
    ref::TA A = D->get(idx / M), B = D->get(idx % M); ExplicitTreeAut a = dom::build(A), b = dom::build(B);
    std::set<unsigned> impl = {InclParam::ANTICHAINS_UP_NOSIM, InclParam::ANTICHAINS_UP_SIM, InclParam::ANTICHAINS_DOWN_NONREC_NOSIM, InclParam::ANTICHAINS_DOWN_NONREC_SIM,
      InclParam::ANTICHAINS_DOWN_REC_NOSIM, InclParam::ANTICHAINS_DOWN_REC_OPT_NOSIM, InclParam::ANTICHAINS_DOWN_REC_SIM, InclParam::ANTICHAINS_DOWN_REC_OPT_SIM};
    c.evals();
    for (unsigned fl = 0; fl < 128; fl++) {
      if (impl.count(fl)) continue;
      InclParam ip; ip.flags_ = fl; AutBase::StateDiscontBinaryRelation sim; ip.SetSimulation(&sim);
      bool threw = false; try { ExplicitTreeAut::CheckInclusion(a, b, ip); } catch (NotImplementedException&) { threw = true; } catch (std::exception&) { threw = true; }
      c.count("unimpl_calls");
      if (!threw) c.viol("CheckInclusion/unimplemented", "answered_instead_of_throwing", {"flags=" + std::to_string(fl)}, "flags=" + std::to_string(fl) + " A: " + D->str(A) + " | B: " + D->str(B));
    }
  };
  env.parallel(o);
}

static Register r0("c01.unimpl", "C01", "unimplemented InclParam flag combinations throw", unimplemented);
static Register r1("c01.n2s2k2", "C01", "pairs of TA(2,{a:0,b:0,g:2},<=2 rules per side), 8 variants, 2 numberings",
                   [](Env& e) { runDomain(e, "c01.n2s2k2", 2, dom::Sigma2(), 2, 4, true); });
static Register rh("c01.huge.n2s2k2", "C01", "pairs of TA(2,{a:0,b:0,g:2},<=2 rules per side) with a third numbering: A on 1000003q+17, B on 2^40+3q (sparse, huge state numbers), no-simulation variants on the raw operands", [](Env& e) { g_hugeNumbers = true; runDomain(e, "c01.huge.n2s2k2", 2, dom::Sigma2(), 2, 4, true); });
static Register ru("c01.up.abch.a4b6", "C01", "upward algorithm without simulation + its internal oracles (final antichain sound/complete, every entry expanded, no post-image lost): every pair of TRIMMED automata A in TA(2,{a:0,b:0,c:0,h:1},<=4) x B in TA(3,same,<=6) - three leaf symbols and a unary one let two equal-size incomparable macro-states of one state wait while a smaller one arrives", [](Env& e) { g_upOnly = true; runTrim2(e, "c01.up.abch.a4b6", 2, 3, dom::Alphabet{{0, 0, 0, 1}, {"a", "b", "c", "h"}}, 4, 6); });
static Register ru2("c01.up.abch.a3b5", "C01", "upward algorithm without simulation + its internal oracles: every pair of TRIMMED automata A in TA(2,{a:0,b:0,c:0,h:1},<=3) x B in TA(3,same,<=5)", [](Env& e) { g_upOnly = true; runTrim2(e, "c01.up.abch.a3b5", 2, 3, dom::Alphabet{{0, 0, 0, 1}, {"a", "b", "c", "h"}}, 3, 5); });
static Register r2("c01.n2s2k3", "C01", "pairs of TA(2,{a:0,b:0,g:2},<=3 rules per side), 8 variants, 2 numberings",
                   [](Env& e) { runDomain(e, "c01.n2s2k3", 2, dom::Sigma2(), 3, 6, true); });
static Register r3("c01.n2s3k2", "C01", "pairs of TA(2,{a:0,b:0,f:1,g:2},<=2 rules per side), 8 variants, 2 numberings",
                   [](Env& e) { runDomain(e, "c01.n2s3k2", 2, dom::Sigma3(), 2, 4, true); });
static Register r4("c01.n2s2k4", "C01", "pairs of TA(2,{a:0,b:0,g:2},<=4 rules per side), 8 variants, 2 numberings",
                   [](Env& e) { runDomain(e, "c01.n2s2k4", 2, dom::Sigma2(), 4, 8, true); });
static Register r5("c01.n2s3k3", "C01", "pairs of TA(2,{a:0,b:0,f:1,g:2},<=3 rules per side), 8 variants, 2 numberings",
                   [](Env& e) { runDomain(e, "c01.n2s3k3", 2, dom::Sigma3(), 3, 6, true); });
static Register r6("c01.n3agk4", "C01", "pairs of TA(3,{a:0,g:2}), total <=4 rules, 8 variants",
                   [](Env& e) { runDomain(e, "c01.n3agk4", 3, dom::SigmaAG(), 4, 4, false); });

static Register t1("c01.trim.n2s3.a3b3", "C01", "pairs of TRIMMED automata of TA(2,{a:0,b:0,f:1,g:2},<=3 rules), 8 variants, 2 numberings", [](Env& e) { runTrim(e, "c01.trim.n2s3.a3b3", 2, dom::Sigma3(), 3, 3, true); });
static Register t2("c01.trim.n3s3.a3b3", "C01", "pairs of TRIMMED automata of TA(3,{a:0,b:0,f:1,g:2},<=3 rules), 8 variants, 2 numberings", [](Env& e) { runTrim(e, "c01.trim.n3s3.a3b3", 3, dom::Sigma3(), 3, 3, true); });
static Register t3("c01.trim.n3s3.a3b4", "C01", "pairs of TRIMMED automata of TA(3,{a:0,b:0,f:1,g:2}): A <=3 x B <=4 rules, 8 variants", [](Env& e) { runTrim(e, "c01.trim.n3s3.a3b4", 3, dom::Sigma3(), 3, 4, false); });
static Register t4("c01.trim.n3afh.a3b3", "C01", "pairs of TRIMMED automata of TA(3,{a:0,f:1,h:3},<=3 rules) (ternary symbol), 8 variants", [](Env& e) { runTrim(e, "c01.trim.n3afh.a3b3", 3, dom::SigmaAFH(), 3, 3, false); });
static Register t5("c01.trim.n4s3p.a3b4", "C01", "pairs of TRIMMED automata of TA(4,{a:0,f:1,g:2}): A <=3 x B <=4 rules", [](Env& e) { runTrim(e, "c01.trim.n4s3p.a3b4", 4, dom::Sigma3p(), 3, 4, false); });
static Register t10("c01.trim.n4s3p.a2b4", "C01", "pairs of TRIMMED automata of TA(4,{a:0,f:1,g:2}): A <=2 x B <=4 rules", [](Env& e) { runTrim(e, "c01.trim.n4s3p.a2b4", 4, dom::Sigma3p(), 2, 4, false); });
static Register t6("c01.trim.n3s3.a4b4", "C01", "pairs of TRIMMED automata of TA(3,{a:0,b:0,f:1,g:2},<=4 rules), 8 variants", [](Env& e) { runTrim(e, "c01.trim.n3s3.a4b4", 3, dom::Sigma3(), 4, 4, false); });
static Register t7("c01.trim.n2s2.a4b6", "C01", "pairs of TRIMMED automata of TA(2,{a:0,b:0,g:2}): A <=4 x B <=6 rules, 8 variants, 2 numberings", [](Env& e) { runTrim(e, "c01.trim.n2s2.a4b6", 2, dom::Sigma2(), 4, 6, true); });
static Register t8("c01.trim.n2s2.a5b7", "C01", "pairs of TRIMMED automata of TA(2,{a:0,b:0,g:2}): A <=5 x B <=7 rules, 8 variants", [](Env& e) { runTrim(e, "c01.trim.n2s2.a5b7", 2, dom::Sigma2(), 5, 7, false); });
static Register t9("c01.trim.n2s2.a3b5", "C01", "pairs of TRIMMED automata of TA(2,{a:0,b:0,g:2}): A <=3 x B <=5 rules, 8 variants, 2 numberings", [](Env& e) { runTrim(e, "c01.trim.n2s2.a3b5", 2, dom::Sigma2(), 3, 5, true); });
static Register t11("c01.trim.n3abf.a4b2", "C01", "pairs of TRIMMED automata of TA(3,{a:0,b:0,f:1}): A <=4 x B <=2 rules (unary chains/loops: the recursive searches revisit ancestors), 8 variants, 2 numberings", [](Env& e) { runTrim(e, "c01.trim.n3abf.a4b2", 3, dom::SigmaABF(), 4, 2, true); });
static Register t12("c01.trim.n3abf.a5b3", "C01", "pairs of TRIMMED automata of TA(3,{a:0,b:0,f:1}): A <=5 x B <=3 rules, 8 variants, 2 numberings", [](Env& e) { runTrim(e, "c01.trim.n3abf.a5b3", 3, dom::SigmaABF(), 5, 3, true); });
static Register t13("c01.trim.n4abf.a5b3", "C01", "pairs of TRIMMED automata of TA(4,{a:0,b:0,f:1}): A <=5 x B <=3 rules, 8 variants", [](Env& e) { runTrim(e, "c01.trim.n4abf.a5b3", 4, dom::SigmaABF(), 5, 3, false); });
static Register t15("c01.trim.n4abf.a4b3", "C01", "pairs of TRIMMED automata of TA(4,{a:0,b:0,f:1}): A <=4 x B <=3 rules, 8 variants", [](Env& e) { runTrim(e, "c01.trim.n4abf.a4b3", 4, dom::SigmaABF(), 4, 3, false); });
static Register t14("c01.trim.n3abfg1.a4b3", "C01", "pairs of TRIMMED automata of TA(3,{a:0,b:0,f:1,g:1}): A <=4 x B <=3 rules, 8 variants", [](Env& e) { runTrim(e, "c01.trim.n3abfg1.a4b3", 3, dom::SigmaABFG1(), 4, 3, false); });
}  // namespace c01
