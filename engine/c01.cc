// C01 — explicit tree-automata inclusion is exact under every implemented algorithm selection.
// E-ENUM: every ordered pair of a TA domain x 8 InclParam selections (x numbering variants) vs ref::included.
#include "runner.hh"
#include "domain.hh"
#include <vata/incl_param.hh>
#include <vata/sim_param.hh>

using namespace verif; using namespace VATA;

namespace c01 {

struct Variant { const char* name; bool down, rec, opt, sim; };
static const Variant VARIANTS[8] = {
  {"up_nosim", false, false, false, false}, {"up_sim", false, false, false, true},
  {"down_nonrec_nosim", true, false, false, false}, {"down_nonrec_sim", true, false, false, true},
  {"down_rec_nosim", true, true, false, false}, {"down_rec_sim", true, true, false, true},
  {"down_rec_opt_nosim", true, true, true, false}, {"down_rec_opt_sim", true, true, true, true}};

static InclParam mkParam(const Variant& v) {
  InclParam ip; ip.SetAlgorithm(InclParam::e_algorithm::antichains);
  ip.SetDirection(v.down ? InclParam::e_direction::downward : InclParam::e_direction::upward);
  ip.SetUseRecursion(v.rec); ip.SetUseDownwardCacheImpl(v.opt); ip.SetUseSimulation(v.sim); return ip;
}

// returns 0/1 verdict, 2 = std::exception, 3 = other exception
int callIncl(const ExplicitTreeAut& a0, const ExplicitTreeAut& b0, const Variant& v, std::string* what = nullptr) {
  try {
    InclParam ip = mkParam(v);
    if (!v.sim) return ExplicitTreeAut::CheckInclusion(a0, b0, ip) ? 1 : 0;
    // recipe of cli/operations.hh and unit_tests/tree_aut_test.hh
    ExplicitTreeAut a(a0), b(b0);
    AutBase::StateType st = AutBase::SanitizeAutsForInclusion(a, b);
    ExplicitTreeAut u = ExplicitTreeAut::UnionDisjointStates(a, b);
    SimParam sp; sp.SetNumStates(st);
    sp.SetRelation(v.down ? SimParam::e_sim_relation::TA_DOWNWARD : SimParam::e_sim_relation::TA_UPWARD);
    AutBase::StateDiscontBinaryRelation sim = u.ComputeSimulation(sp);
    ip.SetSimulation(&sim);
    return ExplicitTreeAut::CheckInclusion(a, b, ip) ? 1 : 0;
  } catch (std::exception& e) { if (what) *what = e.what(); return 2; } catch (...) { return 3; }
}

std::vector<std::string> pairFeatures(const ref::TA& A, const ref::TA& B) {
  std::vector<std::string> f;
  auto na = dom::nullarySyms(A), nb = dom::nullarySyms(B);
  bool oneSided = false; for (auto s : na) if (!nb.count(s)) oneSided = true;
  if (oneSided) f.push_back("A_has_nullary_symbol_B_lacks");
  if (dom::hasBinary(A) || dom::hasBinary(B)) f.push_back("binary_rule");
  if (dom::hasUseless(A) || dom::hasUseless(B)) f.push_back("useless_states");
  return f;
}

static void runDomain(Env& env, const std::string& stage, int n, const dom::Alphabet& sig, int perSide, int totalMax, bool numberings) {
  auto D = std::make_shared<dom::TADomain>(n, sig, perSide);
  auto P = std::make_shared<dom::PairIndex>(*D, totalMax);
  env.noteNum(stage + ".automata", D->size()); env.noteNum(stage + ".rule_universe", D->U.size());
  ParallelOpts o; o.stage = stage; o.size = P->total; o.block = 512; o.caseTimeout = 10;
  o.describe = [D, P](uint64_t idx) { auto ij = P->get(idx); return "A: " + D->str(D->get(ij.first)) + " | B: " + D->str(D->get(ij.second)); };
  o.run = [D, P, numberings, n](uint64_t idx, Ctx& c) {
    auto ij = P->get(idx); size_t i = ij.first, j = ij.second;
    ref::TA A = D->get(i), B = D->get(j);
    bool expect = ref::included(A, B);
    bool eA = ref::emptyLang(A), eB = ref::emptyLang(B);
    c.evals();
    if (!eA && !eB && A != B) c.nontrivial();
    c.count(expect ? "expect_included" : "expect_not_included");
    if (!eA) c.count(expect ? "nonemptyA_included" : "nonemptyA_not_included");
    auto na = dom::nullarySyms(A), nb = dom::nullarySyms(B); for (auto s : na) if (!nb.count(s)) { c.count("class_A_nullary_B_lacks"); break; }
    if (dom::hasRulelessState(A)) c.count("class_A_state_without_rules");
    if (dom::hasUseless(A) || dom::hasUseless(B)) c.count("class_useless_states");
    if (dom::hasBinary(A) && dom::hasBinary(B)) c.count("class_binary_both");
    if (c.wantSample() && !eA && !eB && A != B && D->numRules(i) >= 2) c.sample("A: " + D->str(A) + " | B: " + D->str(B) + " | included=" + (expect ? "1" : "0"));
    int numb = numberings ? 2 : 1;
    for (int nv = 0; nv < numb; nv++) {
      ref::TA A2 = A, B2 = B;
      if (nv == 1) { A2 = ref::shift(A, 5); B2 = ref::mapStatesF(B, [n](size_t q) { return (size_t)(n - 1) - q; }); }
      ExplicitTreeAut a = dom::build(A2), b = dom::build(B2, nv == 1);
      for (auto& v : VARIANTS) {
        if (nv == 1 && v.sim) continue;   // sim variants always see prepared operands; renumbering is covered by nv==0 + C19
        std::string what; int got = callIncl(a, b, v, &what);
        c.count("calls");
        if (got == (expect ? 1 : 0)) continue;
        std::string cls = got >= 2 ? "exception" : got == 1 ? "says_included_but_is_not" : "says_not_included_but_is";
        auto feats = pairFeatures(A, B); 
        c.viol(std::string("CheckInclusion/") + v.name, cls, feats,
               "A: " + D->str(A2) + " | B: " + D->str(B2) + " | variant=" + v.name + " expected=" + (expect ? "1" : "0") + " got=" + std::to_string(got) + (what.empty() ? "" : " what=" + what) +
               "\n--- A (timbuk)\n" + dom::timbuk(A2, D->sig, "A") + "--- B (timbuk)\n" + dom::timbuk(B2, D->sig, "B"),
               D->numRules(i) + D->numRules(j));
      }
    }
  };
  env.parallel(o);
}

// unimplemented flag combinations must throw NotImplementedException (never answer)
static void unimplemented(Env& env) {
  auto D = std::make_shared<dom::TADomain>(2, dom::Sigma2(), 1);
  uint64_t M = D->size();
  ParallelOpts o; o.stage = "c01.unimpl"; o.size = M * M; o.block = 64;
  o.run = [D, M](uint64_t idx, Ctx& c) {
    ref::TA A = D->get(idx / M), B = D->get(idx % M); ExplicitTreeAut a = dom::build(A), b = dom::build(B);
    std::set<unsigned> impl = {InclParam::ANTICHAINS_UP_NOSIM, InclParam::ANTICHAINS_UP_SIM, InclParam::ANTICHAINS_DOWN_NONREC_NOSIM, InclParam::ANTICHAINS_DOWN_NONREC_SIM,
      InclParam::ANTICHAINS_DOWN_REC_NOSIM, InclParam::ANTICHAINS_DOWN_REC_OPT_NOSIM, InclParam::ANTICHAINS_DOWN_REC_SIM, InclParam::ANTICHAINS_DOWN_REC_OPT_SIM};
    c.evals();
    for (unsigned fl = 0; fl < 128; fl++) {
      if (impl.count(fl)) continue;
      InclParam ip; ip.flags_ = fl; AutBase::StateDiscontBinaryRelation sim; ip.SetSimulation(&sim);
      bool threw = false; try { ExplicitTreeAut::CheckInclusion(a, b, ip); } catch (NotImplementedException&) { threw = true; } catch (std::exception&) { threw = true; }
      c.count("unimpl_calls");
      if (!threw) c.viol("CheckInclusion/unimplemented", "answered_instead_of_throwing", {"flags=" + std::to_string(fl)}, "flags=" + std::to_string(fl) + " A: " + D->str(A) + " | B: " + D->str(B));
    }
  };
  env.parallel(o);
}

static Register r0("c01.unimpl", "C01", "unimplemented InclParam flag combinations throw", unimplemented);
static Register r1("c01.n2s2k2", "C01", "pairs of TA(2,{a:0,b:0,g:2},<=2 rules per side), 8 variants, 2 numberings",
                   [](Env& e) { runDomain(e, "c01.n2s2k2", 2, dom::Sigma2(), 2, 4, true); });
static Register r2("c01.n2s2k3", "C01", "pairs of TA(2,{a:0,b:0,g:2},<=3 rules per side), 8 variants, 2 numberings",
                   [](Env& e) { runDomain(e, "c01.n2s2k3", 2, dom::Sigma2(), 3, 6, true); });
static Register r3("c01.n2s3k2", "C01", "pairs of TA(2,{a:0,b:0,f:1,g:2},<=2 rules per side), 8 variants, 2 numberings",
                   [](Env& e) { runDomain(e, "c01.n2s3k2", 2, dom::Sigma3(), 2, 4, true); });
static Register r4("c01.n2s2k4", "C01", "pairs of TA(2,{a:0,b:0,g:2},<=4 rules per side), 8 variants, 2 numberings",
                   [](Env& e) { runDomain(e, "c01.n2s2k4", 2, dom::Sigma2(), 4, 8, true); });
static Register r5("c01.n2s3k3", "C01", "pairs of TA(2,{a:0,b:0,f:1,g:2},<=3 rules per side), 8 variants, 2 numberings",
                   [](Env& e) { runDomain(e, "c01.n2s3k3", 2, dom::Sigma3(), 3, 6, true); });
static Register r6("c01.n3agk4", "C01", "pairs of TA(3,{a:0,g:2}), total <=4 rules, 8 variants",
                   [](Env& e) { runDomain(e, "c01.n3agk4", 3, dom::SigmaAG(), 4, 4, false); });

}  // namespace c01
