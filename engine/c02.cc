// C02 — Union / UnionDisjointStates / Intersection / IntersectionBU of explicit tree automata.
#include "runner.hh"
#include "domain.hh"
#include "explicit_tree_aut_core.hh"
#include "loadable_aut.hh"

using namespace verif; using namespace VATA;

namespace c02 {

static const size_t W = 1000;   // product coding of the reference

static void body(Env& env, const std::string& stage, int n, const dom::Alphabet& sig, int perSide, int totalMax, bool trimmedOnly = false) {
  auto D = std::make_shared<dom::TADomain>(n, sig, perSide, !trimmedOnly, trimmedOnly); if (trimmedOnly) D->keepTrimmedOnly();
  auto P = std::make_shared<dom::PairIndex>(*D, totalMax);
  env.noteNum(stage + ".automata", D->size());
  ParallelOpts o; o.stage = stage; o.size = P->total; o.block = 512;
  o.describe = [D, P](uint64_t idx) { auto ij = P->get(idx); return "A: " + D->str(D->get(ij.first)) + " | B: " + D->str(D->get(ij.second)); };
  o.run = [D, P, n](uint64_t idx, Ctx& c) {
    auto ij = P->get(idx); ref::TA A = D->get(ij.first), B = D->get(ij.second);
    c.evals(); uint64_t w = A.rules.size() + B.rules.size();
    bool eA = ref::emptyLang(A), eB = ref::emptyLang(B);
    ref::TA prod = ref::product(A, B, W); bool eI = ref::emptyLang(prod);
    if (!eA && !eB && A != B) c.nontrivial();
    c.count(eI ? "intersection_empty" : "intersection_nonempty");
    if (eA || eB) c.count("class_empty_operand");
    if (dom::hasUseless(A) || dom::hasUseless(B)) c.count("class_useless_states");
    if (c.wantSample() && !eI && A != B && w >= 4) c.sample("A: " + D->str(A) + " | B: " + D->str(B));
    ExplicitTreeAut a = dom::build(A), b = dom::build(B, true);   // rhs built the other way round (finals first, descending): every automaton occurs on both sides of some pair
    auto D_ = D;
    auto det = [&](const std::string& extra) { return "A: " + D_->str(A) + " | B: " + D_->str(B) + " | " + extra + "\n--- A (timbuk)\n" + dom::timbuk(A, D_->sig, "A") + "--- B (timbuk)\n" + dom::timbuk(B, D_->sig, "B"); };
    auto unchanged = [&](const char* sub) { if (dom::readBack(a) != A || dom::readBack(b) != B) c.viol(sub, "operand_changed", {}, det(""), w); };
    ref::TA U = ref::disjointUnion(A, B);
    try {
      // ---- Union, overlapping state numbers, no maps
      { ExplicitTreeAut r = ExplicitTreeAut::Union(a, b); ref::TA R = dom::readBack(r);
        if (!ref::equalLang(R, U)) c.viol("Union(nomaps)", "language_not_the_union", {}, det("result: " + R.str()), w); unchanged("Union(nomaps)"); }
      // ---- Union with empty maps: the maps name every result state, result is exactly the renamed union
      AutBase::StateToStateMap mA, mB;
      { ExplicitTreeAut r = ExplicitTreeAut::Union(a, b, &mA, &mB); ref::TA R = dom::readBack(r);
        std::map<size_t, size_t> ma(mA.begin(), mA.end()), mb(mB.begin(), mB.end()); std::set<size_t> ka, kb, img;
        for (auto& kv : ma) { ka.insert(kv.first); img.insert(kv.second); } for (auto& kv : mb) { kb.insert(kv.first); img.insert(kv.second); }
        if (ka != A.states() || kb != B.states() || img.size() != ka.size() + kb.size()) c.viol("Union(emptymaps)", "maps_do_not_name_the_states", {}, det("result: " + R.str()), w);
        else { ref::TA E = ref::plainUnion(ref::mapStates(A, ma), ref::mapStates(B, mb)); if (R != E) c.viol("Union(emptymaps)", "result_not_the_renamed_union", {}, det("result: " + R.str() + " expected: " + E.str()), w); }
        if (!ref::equalLang(R, U)) c.viol("Union(emptymaps)", "language_not_the_union", {}, det("result: " + R.str()), w); unchanged("Union(emptymaps)"); }
      // ---- Union with a pre-filled lhs map: the caller united A with something before (here: with B) and now unites A with B again
      //      through the same lhs map and a fresh rhs map; and with stale entries for states that do not occur
      { AutBase::StateToStateMap mA2(mA), mB2; ExplicitTreeAut r = ExplicitTreeAut::Union(a, b, &mA2, &mB2); ref::TA R = dom::readBack(r);
        std::vector<std::string> feats; if (!A.states().empty()) feats.push_back("lhs_map_prefilled_nonempty");
        if (!ref::equalLang(R, U)) c.viol("Union(prefilled_lhs_map)", "language_not_the_union", feats, det("lhs map pre-filled by a previous Union(A,B,&mA,&mB), rhs map fresh; result: " + R.str()), w);
        else { std::set<size_t> img; for (auto& kv : mA2) img.insert(kv.second); for (auto& kv : mB2) img.insert(kv.second);
          if (img.size() != mA2.size() + mB2.size()) c.viol("Union(prefilled_lhs_map)", "maps_not_injective", feats, det("result: " + R.str()), w); }
        unchanged("Union(prefilled_lhs_map)"); }
      { AutBase::StateToStateMap mA3, mB3; mA3[777] = 0; mB3[778] = 1; ExplicitTreeAut r = ExplicitTreeAut::Union(a, b, &mA3, &mB3); ref::TA R = dom::readBack(r);
        if (!ref::equalLang(R, U)) c.viol("Union(stale_entries)", "language_not_the_union", {}, det("maps pre-filled with entries 777->0 / 778->1 for states that do not occur; result: " + R.str()), w); }
      // ---- UnionDisjointStates on operands shifted apart
      { ref::TA B2 = ref::shift(B, n); ExplicitTreeAut b2 = dom::build(B2); ExplicitTreeAut r = ExplicitTreeAut::UnionDisjointStates(a, b2); ref::TA R = dom::readBack(r);
        ref::TA E = ref::plainUnion(A, B2);
        if (R != E) c.viol("UnionDisjointStates", !ref::equalLang(R, U) ? "language_not_the_union" : "result_not_the_plain_union", {}, det("result: " + R.str()), w);
        if (dom::readBack(a) != A || dom::readBack(b2) != B2) c.viol("UnionDisjointStates", "operand_changed", {}, det(""), w); }
      // ---- Intersection (top-down) and IntersectionBU, with and without map
      for (int bu = 0; bu < 2; bu++) {
        const char* sub = bu ? "IntersectionBU" : "Intersection";
        { ExplicitTreeAut r = bu ? ExplicitTreeAut::IntersectionBU(a, b) : ExplicitTreeAut::Intersection(a, b); ref::TA R = dom::readBack(r);
          if (!ref::equalLang(R, prod)) c.viol(std::string(sub) + "(nomap)", "language_not_the_intersection", {}, det("result: " + R.str()), w); }
        AutBase::ProductTranslMap pm; ExplicitTreeAut r = bu ? ExplicitTreeAut::IntersectionBU(a, b, &pm) : ExplicitTreeAut::Intersection(a, b, &pm); ref::TA R = dom::readBack(r);
        if (!ref::equalLang(R, prod)) c.viol(sub, "language_not_the_intersection", {}, det("result: " + R.str()), w);
        std::map<size_t, std::pair<size_t, size_t>> back; bool inj = true; for (auto& kv : pm) if (!back.insert({kv.second, kv.first}).second) inj = false;
        bool named = true; for (auto s : R.states()) if (!back.count(s)) named = false;
        if (!inj || !named) c.viol(sub, !inj ? "product_map_not_injective" : "result_state_not_named_by_map", {}, det("result: " + R.str()), w);
        else for (auto s : R.states()) { auto pq = back[s];
          if (!ref::equalLang(ref::withFinals(R, {s}), ref::withFinals(prod, {pq.first * W + pq.second}))) { c.viol(sub, "state_language_not_the_pair_intersection", {}, det("state " + std::to_string(s) + " stands for (" + std::to_string(pq.first) + "," + std::to_string(pq.second) + "); result: " + R.str()), w); break; } }
        unchanged(sub);
      }
      // ---- the same object as both operands (diagonal of the pair space only)
      if (ij.first == ij.second) { c.count("aliased_operand_cases");
        { ExplicitTreeAut r = ExplicitTreeAut::Union(a, a); if (!ref::equalLang(dom::readBack(r), A)) c.viol("Union(aliased)", "language_not_the_union", {}, det("Union(a, a); result: " + dom::readBack(r).str()), w); }
        { AutBase::StateToStateMap m1, m2; ExplicitTreeAut r = ExplicitTreeAut::Union(a, a, &m1, &m2); if (!ref::equalLang(dom::readBack(r), A)) c.viol("Union(aliased,maps)", "language_not_the_union", {}, det("Union(a, a, &m1, &m2); result: " + dom::readBack(r).str()), w); }
        for (int bu = 0; bu < 2; bu++) { AutBase::ProductTranslMap pm; ExplicitTreeAut r = bu ? ExplicitTreeAut::IntersectionBU(a, a, &pm) : ExplicitTreeAut::Intersection(a, a, &pm);
          if (!ref::equalLang(dom::readBack(r), A)) c.viol(bu ? "IntersectionBU(aliased)" : "Intersection(aliased)", "language_not_the_intersection", {}, det("both operands are the same object; result: " + dom::readBack(r).str()), w); }
        if (dom::readBack(a) != A) c.viol("aliased", "operand_changed", {}, det(""), w); }
      // ---- huge sparse state numbers (A on 1000003q+17, B on 2^40+3q): languages are invariant under renaming, so the references are those of the small pair
      { ExplicitTreeAut aH = dom::build(ref::mapStatesF(A, [](size_t q) { return (size_t)1000003 * q + 17; })), bH = dom::build(ref::mapStatesF(B, [](size_t q) { return ((size_t)1 << 40) + 3 * q; })); std::vector<std::string> fH = {"huge_sparse_state_numbers"}; c.count("huge_number_pairs");
        { ExplicitTreeAut r = ExplicitTreeAut::Union(aH, bH); if (!ref::equalLang(dom::readBack(r), U)) c.viol("Union(nomaps)", "language_not_the_union", fH, det("A on 1000003q+17, B on 2^40+3q"), w); }
        { ExplicitTreeAut r = ExplicitTreeAut::UnionDisjointStates(aH, bH); if (!ref::equalLang(dom::readBack(r), U)) c.viol("UnionDisjointStates", "language_not_the_union", fH, det("A on 1000003q+17, B on 2^40+3q"), w); }
        for (int bu = 0; bu < 2; bu++) { ExplicitTreeAut r = bu ? ExplicitTreeAut::IntersectionBU(aH, bH) : ExplicitTreeAut::Intersection(aH, bH); if (!ref::equalLang(dom::readBack(r), prod)) c.viol(bu ? "IntersectionBU(nomap)" : "Intersection(nomap)", "language_not_the_intersection", fH, det("A on 1000003q+17, B on 2^40+3q"), w); } }
      // ---- the same pair built from a COMMON ANCESTOR: anc = A meet B (the rules and final states both have); a2, b2 = copies of anc to which the rest is added.
      //      The operands then share every copy-on-write level the additions did not touch (the whole rule map when the rule sets coincide).
      { ref::TA C; for (auto& r : A.rules) if (B.rules.count(r)) C.rules.insert(r); for (auto q : A.finals) if (B.finals.count(q)) C.finals.insert(q);
        ExplicitTreeAut anc = dom::build(C); ExplicitTreeAut a2(anc), b2; b2 = anc;
        auto grow = [&](ExplicitTreeAut& x, const ref::TA& X) { for (auto q : X.finals) if (!C.finals.count(q)) x.SetStateFinal(q); for (auto& r : X.rules) if (!C.rules.count(r)) x.AddTransition(r.ch, r.sym, r.par); };
        grow(a2, A); grow(b2, B); c.count("common_ancestor_pairs"); if (a2.core_->transitions_.get() == b2.core_->transitions_.get()) c.count("common_ancestor_pairs_sharing_the_whole_rule_map");
        std::vector<std::string> f2 = {"operands_derived_from_a_common_ancestor"}; std::string dd = det("ancestor: " + D_->str(C));
        if (dom::readBack(a2) != A || dom::readBack(b2) != B || dom::readBack(anc) != C) c.viol("copies grown from a common ancestor", "handle_reads_wrong_value", f2, dd, w);
        else {
          { ExplicitTreeAut r = ExplicitTreeAut::Union(a2, b2); ref::TA R = dom::readBack(r); if (!ref::equalLang(R, U)) c.viol("Union(nomaps)", "language_not_the_union", f2, dd + " result: " + R.str(), w); }
          { AutBase::StateToStateMap m1, m2; ExplicitTreeAut r = ExplicitTreeAut::Union(a2, b2, &m1, &m2); ref::TA R = dom::readBack(r); if (!ref::equalLang(R, U)) c.viol("Union(emptymaps)", "language_not_the_union", f2, dd + " result: " + R.str(), w); }
          for (int bu = 0; bu < 2; bu++) { ExplicitTreeAut r = bu ? ExplicitTreeAut::IntersectionBU(a2, b2) : ExplicitTreeAut::Intersection(a2, b2); ref::TA R = dom::readBack(r); if (!ref::equalLang(R, prod)) c.viol(bu ? "IntersectionBU(nomap)" : "Intersection(nomap)", "language_not_the_intersection", f2, dd + " result: " + R.str(), w); }
          if (dom::readBack(a2) != A || dom::readBack(b2) != B || dom::readBack(anc) != C) c.viol("union/intersection", "operand_changed", f2, dd, w); } }
    } catch (std::exception& e) { c.viol("union/intersection", "exception", {}, det(e.what()), w); }
  };
  env.parallel(o);
}

static Register r1("c02.n2s2k3", "C02", "pairs of TA(2,{a:0,b:0,g:2},<=3 per side)", [](Env& e) { body(e, "c02.n2s2k3", 2, dom::Sigma2(), 3, 6); });
static Register r2("c02.n2s3k2", "C02", "pairs of TA(2,{a:0,b:0,f:1,g:2},<=2 per side)", [](Env& e) { body(e, "c02.n2s3k2", 2, dom::Sigma3(), 2, 4); });
static Register r3("c02.n2s2k4", "C02", "pairs of TA(2,{a:0,b:0,g:2},<=4 per side)", [](Env& e) { body(e, "c02.n2s2k4", 2, dom::Sigma2(), 4, 8); });
static Register r4("c02.n2s3k3", "C02", "pairs of TA(2,{a:0,b:0,f:1,g:2},<=3 per side)", [](Env& e) { body(e, "c02.n2s3k3", 2, dom::Sigma3(), 3, 6); });
static Register r5("c02.n3s3pk4", "C02", "pairs of TA(3,{a:0,f:1,g:2}), total <=4 rules", [](Env& e) { body(e, "c02.n3s3pk4", 3, dom::Sigma3p(), 4, 4); });

static Register t1("c02.trim.n3s3pk3", "C02", "pairs of TRIMMED automata of TA(3,{a:0,f:1,g:2},<=3 per side)", [](Env& e) { body(e, "c02.trim.n3s3pk3", 3, dom::Sigma3p(), 3, 6, true); });
static Register t2("c02.trim.n3afhk3", "C02", "pairs of TRIMMED automata of TA(3,{a:0,f:1,h:3},<=3 per side) (ternary symbol)", [](Env& e) { body(e, "c02.trim.n3afhk3", 3, dom::SigmaAFH(), 3, 6, true); });
static Register t3("c02.trim.n3s3pk4", "C02", "pairs of TRIMMED automata of TA(3,{a:0,f:1,g:2},<=4 per side), total <=7", [](Env& e) { body(e, "c02.trim.n3s3pk4", 3, dom::Sigma3p(), 4, 7, true); });
static Register t4("c02.trim.n4s3pk3", "C02", "pairs of TRIMMED automata of TA(4,{a:0,f:1,g:2},<=3 per side)", [](Env& e) { body(e, "c02.trim.n4s3pk3", 4, dom::Sigma3p(), 3, 6, true); });
static Register t5("c02.trim.n3abfk4", "C02", "pairs of TRIMMED automata of TA(3,{a:0,b:0,f:1},<=4 per side) (word-like)", [](Env& e) { body(e, "c02.trim.n3abfk4", 3, dom::SigmaABF(), 4, 8, true); });
static Register t6("c02.trim.n3abfk3", "C02", "pairs of TRIMMED automata of TA(3,{a:0,b:0,f:1},<=3 per side)", [](Env& e) { body(e, "c02.trim.n3abfk3", 3, dom::SigmaABF(), 3, 6, true); });
}  // namespace c02
