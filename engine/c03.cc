// C03 trimming + emptiness, C05 Reduce, C15 GetCandidateTree — E-ENUM over single automata.
#include "runner.hh"
#include "domain.hh"

using namespace verif; using namespace VATA;

namespace c03 {

static std::string det(const dom::TADomain& D, const ref::TA& A, const std::string& extra) {
  return D.str(A) + " | " + extra + "\n--- A (timbuk)\n" + dom::timbuk(A, D.sig, "A");
}

static void c03Body(Env& env, const std::string& stage, int n, const dom::Alphabet& sig, int k, bool leafOnly = false) {
  auto D = std::make_shared<dom::TADomain>(n, sig, k, true, leafOnly);
  dom::forEachTA(env, stage, D, [D](const ref::TA& A, size_t idx, Ctx& c) {
    c.evals(); uint64_t w = A.rules.size();
    auto reach = ref::reachableTopDown(A), own = A.owners(), use = ref::useful(A); bool empty = ref::emptyLang(A);
    bool unreachOwner = false; for (auto q : own) if (!reach.count(q)) unreachOwner = true;
    bool uselessPresent = false; for (auto q : A.states()) if (!use.count(q)) uselessPresent = true;
    if (!empty && uselessPresent) c.nontrivial();
    if (reach.size() == own.size() && reach != own) c.count("class_equal_counts_different_sets");
    if (unreachOwner) c.count("class_unreachable_rule_owner");
    for (auto f : A.finals) if (!own.count(f)) { c.count("class_final_without_rules"); break; }
    if (A.finals.empty()) c.count("class_no_final");
    c.count(empty ? "lang_empty" : "lang_nonempty");
    if (c.wantSample() && !empty && uselessPresent && A.rules.size() >= 3) c.sample(D->str(A));
    std::vector<std::string> feats; if (reach.size() == own.size() && reach != own) feats.push_back("reachable_count_equals_owner_count");
    ref::TA AH = ref::mapStatesF(A, [](size_t q) { return ((size_t)1 << 40) + (size_t)1000003 * q; });
    for (int ord = 0; ord < 3; ord++) {   // construction histories: rules then finals ascending / finals first, everything descending / the same automaton on huge sparse state numbers (2^40 + 1000003q)
    if (ord == 1 && A.rules.size() + A.finals.size() < 2) continue;
    const ref::TA& X = ord == 2 ? AH : A; if (ord == 2) c.count("class_huge_sparse_state_numbers");
    ExplicitTreeAut a = dom::build(X, ord == 1);
    try {
      // RemoveUnreachableStates
      { ExplicitTreeAut r = a.RemoveUnreachableStates(); ref::TA R = dom::readBack(r);
        if (!ref::equalLang(X, R)) c.viol("RemoveUnreachableStates", "language_changed", feats, det(*D, X, "result: " + D->str(R)), w);
        auto rr = ref::reachableTopDown(R); bool bad = false; for (auto q : R.states()) if (!rr.count(q)) bad = true;
        std::unordered_set<size_t> used = r.GetUsedStates(); for (auto q : used) if (!rr.count(q)) bad = true;
        if (bad) c.viol("RemoveUnreachableStates", "unreachable_state_left", feats, det(*D, X, "result: " + D->str(R)), w);
        if (dom::readBack(a) != X) c.viol("RemoveUnreachableStates", "operand_changed", feats, det(*D, X, ""), w); }
      // with a translation map
      { AutBase::StateToStateMap m; ExplicitTreeAut r = a.RemoveUnreachableStates(&m); ref::TA R = dom::readBack(r);
        if (!ref::equalLang(X, R)) c.viol("RemoveUnreachableStates(map)", "language_changed", feats, det(*D, X, "result: " + D->str(R)), w); }
      // RemoveUselessStates
      { ExplicitTreeAut u = a.RemoveUselessStates(); ref::TA R = dom::readBack(u);
        if (!ref::equalLang(X, R)) c.viol("RemoveUselessStates", "language_changed", feats, det(*D, X, "result: " + D->str(R)), w);
        auto ru = ref::useful(R); bool bad = false; for (auto q : R.states()) if (!ru.count(q)) bad = true; for (auto& x : R.rules) if (!ref::usefulRule(x, ru)) bad = true;
        std::unordered_set<size_t> used = u.GetUsedStates(); for (auto q : used) if (!ru.count(q)) bad = true;
        if (bad) c.viol("RemoveUselessStates", "useless_state_or_rule_left", feats, det(*D, X, "result: " + D->str(R)), w);
        if (dom::readBack(a) != X) c.viol("RemoveUselessStates", "operand_changed", feats, det(*D, X, ""), w); }
      // IsLangEmpty
      { bool e = a.IsLangEmpty(); if (e != empty) c.viol("IsLangEmpty", e ? "says_empty_but_is_not" : "says_nonempty_but_is_empty", feats, det(*D, X, ""), w);
        if (dom::readBack(a) != X) c.viol("IsLangEmpty", "operand_changed", feats, det(*D, X, ""), w); }
    } catch (std::exception& e) { c.viol("trimming", "exception", feats, det(*D, X, e.what()), w); }
    }
  });
}

// C05 Reduce
static bool isQuotientImage(const ref::TA& A, const ref::TA& R) {
  // is there h: states(A) -> states(R), onto, with finals(R) and rules(R) contained in the h-image of A's?
  auto sa = A.states(), sr = R.states(); std::vector<size_t> va(sa.begin(), sa.end()), vr(sr.begin(), sr.end());
  if (vr.empty()) return true; if (va.empty()) return false;
  std::vector<size_t> idx(va.size(), 0);
  while (true) {
    std::map<size_t, size_t> h; std::set<size_t> img; for (size_t i = 0; i < va.size(); i++) { h[va[i]] = vr[idx[i]]; img.insert(vr[idx[i]]); }
    if (img.size() == vr.size()) { ref::TA I = ref::mapStates(A, h); bool ok = true; for (auto f : R.finals) if (!I.finals.count(f)) ok = false; for (auto& x : R.rules) if (!I.rules.count(x)) ok = false; if (ok) return true; }
    size_t k = 0; while (k < va.size() && ++idx[k] == vr.size()) { idx[k] = 0; k++; } if (k == va.size()) break;
  }
  return false;
}

static void c05Body(Env& env, const std::string& stage, int n, const dom::Alphabet& sig, int k, bool allOrders = false) {
  auto D = std::make_shared<dom::TADomain>(n, sig, k);
  dom::forEachTA(env, stage, D, [D, allOrders](const ref::TA& A0, size_t idx, Ctx& c) {
    c.evals(); uint64_t w = A0.rules.size();
    bool empty = ref::emptyLang(A0); if (!empty && A0.rules.size() >= 2) c.nontrivial();
    if (allOrders) {   // every insertion order of the rules (hash-container iteration order depends on it), dense numbering
      std::vector<ref::Rule> rs(A0.rules.begin(), A0.rules.end()); std::vector<int> perm(rs.size()); for (size_t i = 0; i < perm.size(); i++) perm[i] = (int)i;
      do { ExplicitTreeAut a; for (int i : perm) a.AddTransition(rs[i].ch, rs[i].sym, rs[i].par); for (auto f : A0.finals) a.SetStateFinal(f); c.count("insertion_orders");
        try { ExplicitTreeAut r = a.Reduce(); ref::TA R = dom::readBack(r); std::string ord = "insertion order:"; for (int i : perm) ord += " " + std::to_string(i);
          std::string d = det(*D, A0, ord + " result: " + D->str(R));
          if (!ref::equalLang(A0, R)) c.viol("Reduce", "language_changed", {"insertion_order"}, d, w);
          if (R.states().size() > A0.states().size()) c.viol("Reduce", "more_states", {"insertion_order"}, d, w);
          if (dom::countRules(r) > A0.rules.size()) c.viol("Reduce", "more_rules", {"insertion_order"}, d, w);
          if (!isQuotientImage(A0, R)) c.viol("Reduce", "state_not_an_image", {"insertion_order"}, d, w);
        } catch (std::exception& e) { c.viol("Reduce", "exception", {"insertion_order"}, det(*D, A0, e.what()), w); }
      } while (std::next_permutation(perm.begin(), perm.end()));
    }
    c.count(empty ? "lang_empty" : "lang_nonempty");
    if (dom::hasUseless(A0)) c.count("class_useless_states");
    if (c.wantSample() && !empty && A0.rules.size() >= 3) c.sample(D->str(A0));
    size_t sizes[3][2];
    for (int numbering = 0; numbering < 3; numbering++) {
      size_t nn = D->n;
      ref::TA A = numbering == 0 ? A0 : numbering == 1 ? ref::mapStatesF(A0, [](size_t q) { return 7 * q + 3; }) : ref::mapStatesF(A0, [nn](size_t q) { return (nn - 1 - q) * 2; });
      const char* nb = numbering == 0 ? "dense" : numbering == 1 ? "sparse(7q+3)" : "descending(2(n-1-q))";
      ExplicitTreeAut a = dom::build(A, numbering == 2);
      try {
        ExplicitTreeAut r = a.Reduce(); ref::TA R = dom::readBack(r); size_t nrules = dom::countRules(r);
        std::string d = det(*D, A, std::string("numbering=") + nb + " result: " + D->str(R));
        if (!ref::equalLang(A, R)) c.viol("Reduce", "language_changed", {nb}, d, w);
        if (R.states().size() > A.states().size()) c.viol("Reduce", "more_states", {nb}, d, w);
        if (nrules > A.rules.size() || R.rules.size() > A.rules.size()) c.viol("Reduce", "more_rules", {nb}, d, w);
        if (!isQuotientImage(A, R)) c.viol("Reduce", "state_not_an_image", {nb}, d, w);
        if (dom::readBack(a) != A) c.viol("Reduce", "operand_changed", {nb}, d, w);
        sizes[numbering][0] = R.states().size(); sizes[numbering][1] = R.rules.size();
        if (R.states().size() < A.states().size()) c.count("reduced_states");
      } catch (std::exception& e) { c.viol("Reduce", "exception", {nb}, det(*D, A, std::string("numbering=") + nb + " " + e.what()), w); sizes[numbering][0] = sizes[numbering][1] = (size_t)-1; }
    }
  });
}

// C15 witness
static void c15Body(Env& env, const std::string& stage, int n, const dom::Alphabet& sig, int k, bool leafOnly = false) {
  auto D = std::make_shared<dom::TADomain>(n, sig, k, !leafOnly, leafOnly);
  dom::forEachTA(env, stage, D, [D](const ref::TA& A, size_t idx, Ctx& c) {
    c.evals(); uint64_t w = A.rules.size(); bool empty = ref::emptyLang(A);
    if (!empty) c.nontrivial(); c.count(empty ? "lang_empty" : "lang_nonempty");
    auto P = ref::productive(A); bool leafOnly = !empty, deepOnly = !empty;
    for (auto f : A.finals) { for (auto& r : A.rules) if (r.par == f) { bool ok = true; for (auto ch : r.ch) if (!P.count(ch)) ok = false; if (!ok) continue; if (r.ch.empty()) deepOnly = false; else leafOnly = false; } }
    if (leafOnly) c.count("class_leaf_only_language"); if (deepOnly) c.count("class_no_leaf_accepted");
    for (auto f : A.finals) if (!P.count(f)) { c.count("class_unproductive_final"); break; }
    if (c.wantSample() && deepOnly && A.rules.size() >= 3) c.sample(D->str(A));
    for (int ord = 0; ord < 2; ord++) {
    ExplicitTreeAut a = dom::build(A, ord == 1);
    try {
      ExplicitTreeAut wt = a.GetCandidateTree(); ref::TA W = dom::readBack(wt);
      std::string d = det(*D, A, "witness: " + D->str(W));
      if (!ref::included(W, A)) c.viol("GetCandidateTree", "witness_not_sublanguage", {}, d, w);
      if (!empty && ref::emptyLang(W)) c.viol("GetCandidateTree", "witness_empty_for_nonempty_language", {}, d, w);
      if (dom::readBack(a) != A) c.viol("GetCandidateTree", "operand_changed", {}, d, w);
    } catch (std::exception& e) { c.viol("GetCandidateTree", "exception", {}, det(*D, A, e.what()), w); }
    }
  });
}


// C05 on EVERY automaton with n states over a small alphabet (implicit index = rule bit mask x final mask; nothing is stored)
static void c05All(Env& env, const std::string& stage, int n, const dom::Alphabet& sig) {
  auto D = std::make_shared<dom::TADomain>(n, sig, 0);   // only for the rule universe and printing
  int R = (int)D->U.size(); if (R + n > 40) throw std::runtime_error("c05All: domain too large");
  env.noteNum(stage + ".rule_universe", R);
  ParallelOpts o; o.stage = stage; o.size = (uint64_t)1 << (R + n); o.block = 1 << 14; o.caseTimeout = 20;
  auto mk = [D, R, n](uint64_t idx) { ref::TA A; for (int i = 0; i < R; i++) if (idx >> i & 1) A.rules.insert(D->U[i]); for (int q = 0; q < n; q++) if (idx >> (R + q) & 1) A.finals.insert(q); return A; };
  o.describe = [D, mk](uint64_t idx) { return D->str(mk(idx)); };
  o.run = [D, mk, R, n](uint64_t idx, Ctx& c) {
    if (!(idx >> R)) return;                                   // no final state: language empty, covered by the smaller domains
    ref::TA A = mk(idx); c.evals(); bool empty = ref::emptyLang(A); if (empty && A.rules.size() > 4) return;   // large empty-language automata: skipped (counted as evaluated, not as non-trivial)
    if (!empty) c.nontrivial(); c.count(empty ? "lang_empty" : "lang_nonempty"); if (c.wantSample() && !empty && A.rules.size() >= 8) c.sample(D->str(A));
    ExplicitTreeAut a = dom::build(A);
    try { ExplicitTreeAut r = a.Reduce(); ref::TA Rr = dom::readBack(r); uint64_t w = A.rules.size();
      if (Rr.states().size() < A.states().size()) c.count("reduced_states");
      if (!ref::equalLang(A, Rr)) c.viol("Reduce", "language_changed", {"all_automata_domain"}, det(*D, A, "result: " + D->str(Rr)), w);
      else if (Rr.states().size() > A.states().size() || Rr.rules.size() > A.rules.size()) c.viol("Reduce", "more_states_or_rules", {"all_automata_domain"}, det(*D, A, "result: " + D->str(Rr)), w);
      else if (!isQuotientImage(A, Rr)) c.viol("Reduce", "state_not_an_image", {"all_automata_domain"}, det(*D, A, "result: " + D->str(Rr)), w);
    } catch (std::exception& e) { c.viol("Reduce", "exception", {"all_automata_domain"}, det(*D, A, e.what()), A.rules.size()); } };
  env.parallel(o);
}
static const dom::Alphabet SIG_ABG1 = {{0, 0, 1}, {"a", "b", "g"}};
static Register b11("c05.all.n3abg1", "C05", "EVERY automaton with 3 states over {a:0,b:0,g:1} (2^15 rule sets x final sets)", [](Env& e) { c05All(e, "c05.all.n3abg1", 3, SIG_ABG1); });
static Register b12("c05.all.n4abg1", "C05", "EVERY automaton with 4 states over {a:0,b:0,g:1} (2^24 rule sets x 15 final sets = 251 M automata)", [](Env& e) { c05All(e, "c05.all.n4abg1", 4, SIG_ABG1); });
static Register b13("c05.all.n4ag1", "C05", "EVERY automaton with 4 states over {a:0,g:1} (2^20 rule sets x final sets)", [](Env& e) { c05All(e, "c05.all.n4ag1", 4, dom::SigmaAF()); });
static Register a1("c03.n3s3pk3", "C03", "all of TA(3,{a:0,f:1,g:2},<=3 rules)", [](Env& e) { c03Body(e, "c03.n3s3pk3", 3, dom::Sigma3p(), 3); });
static Register a2("c03.n3s3pk4", "C03", "all of TA(3,{a:0,f:1,g:2},<=4 rules)", [](Env& e) { c03Body(e, "c03.n3s3pk4", 3, dom::Sigma3p(), 4); });
static Register a3("c03.n2s3k6", "C03", "all of TA(2,{a:0,b:0,f:1,g:2},<=6 rules)", [](Env& e) { c03Body(e, "c03.n2s3k6", 2, dom::Sigma3(), 6); });
static Register a4("c03.n3s3pk5", "C03", "all of TA(3,{a:0,f:1,g:2},<=5 rules)", [](Env& e) { c03Body(e, "c03.n3s3pk5", 3, dom::Sigma3p(), 5); });
static Register a5("c03.n2s3k7", "C03", "all of TA(2,{a:0,b:0,f:1,g:2},<=7 rules)", [](Env& e) { c03Body(e, "c03.n2s3k7", 2, dom::Sigma3(), 7); });
static Register a6("c03.n4agk4", "C03", "all of TA(4,{a:0,g:2},<=4 rules)", [](Env& e) { c03Body(e, "c03.n4agk4", 4, dom::SigmaAG(), 4); });
static Register b1("c05.n3s3pk3", "C05", "all of TA(3,{a:0,f:1,g:2},<=3 rules) x 3 numberings", [](Env& e) { c05Body(e, "c05.n3s3pk3", 3, dom::Sigma3p(), 3); });
static Register b2("c05.n3s3pk4", "C05", "all of TA(3,{a:0,f:1,g:2},<=4 rules) x 3 numberings", [](Env& e) { c05Body(e, "c05.n3s3pk4", 3, dom::Sigma3p(), 4); });
static Register b3("c05.n2s3k6", "C05", "all of TA(2,{a:0,b:0,f:1,g:2},<=6 rules) x 3 numberings", [](Env& e) { c05Body(e, "c05.n2s3k6", 2, dom::Sigma3(), 6); });
static Register b4("c05.n3s3pk5", "C05", "all of TA(3,{a:0,f:1,g:2},<=5 rules) x 3 numberings", [](Env& e) { c05Body(e, "c05.n3s3pk5", 3, dom::Sigma3p(), 5); });
static Register b5("c05.n2s3k7", "C05", "all of TA(2,{a:0,b:0,f:1,g:2},<=7 rules) x 3 numberings", [](Env& e) { c05Body(e, "c05.n2s3k7", 2, dom::Sigma3(), 7); });
static Register b6("c05.n4afk4", "C05", "all of TA(4,{a:0,f:1},<=4 rules) x 3 numberings x ALL rule insertion orders", [](Env& e) { c05Body(e, "c05.n4afk4", 4, dom::SigmaAF(), 4, true); });
static Register b7("c05.n4afk5", "C05", "all of TA(4,{a:0,f:1},<=5 rules) x 3 numberings x ALL rule insertion orders", [](Env& e) { c05Body(e, "c05.n4afk5", 4, dom::SigmaAF(), 5, true); });
static Register b8("c05.n4s3pk3", "C05", "all of TA(4,{a:0,f:1,g:2},<=3 rules) x 3 numberings x all insertion orders", [](Env& e) { c05Body(e, "c05.n4s3pk3", 4, dom::Sigma3p(), 3, true); });
static Register b9("c05.n4afk5.std", "C05", "all of TA(4,{a:0,f:1},<=5 rules) x 3 numberings (2 insertion orders)", [](Env& e) { c05Body(e, "c05.n4afk5.std", 4, dom::SigmaAF(), 5, false); });
static Register b10("c05.n3afhk3", "C05", "all of TA(3,{a:0,f:1,h:3},<=3 rules) x 3 numberings (ternary rules)", [](Env& e) { c05Body(e, "c05.n3afhk3", 3, dom::SigmaAFH(), 3); });
static Register d1("c15.n3s3pk3", "C15", "all of TA(3,{a:0,f:1,g:2},<=3 rules)", [](Env& e) { c15Body(e, "c15.n3s3pk3", 3, dom::Sigma3p(), 3); });
static Register d2("c15.n3s3pk4", "C15", "all of TA(3,{a:0,f:1,g:2},<=4 rules)", [](Env& e) { c15Body(e, "c15.n3s3pk4", 3, dom::Sigma3p(), 4); });
static Register d3("c15.n2s3k6", "C15", "all of TA(2,{a:0,b:0,f:1,g:2},<=6 rules)", [](Env& e) { c15Body(e, "c15.n2s3k6", 2, dom::Sigma3(), 6); });

static Register d4("c15.n3s3pk5", "C15", "all of TA(3,{a:0,f:1,g:2},<=5 rules)", [](Env& e) { c15Body(e, "c15.n3s3pk5", 3, dom::Sigma3p(), 5); });
static Register d5("c15.n2s3k7", "C15", "all of TA(2,{a:0,b:0,f:1,g:2},<=7 rules)", [](Env& e) { c15Body(e, "c15.n2s3k7", 2, dom::Sigma3(), 7); });
static Register d6("c15.n4agk4", "C15", "all of TA(4,{a:0,g:2},<=4 rules)", [](Env& e) { c15Body(e, "c15.n4agk4", 4, dom::SigmaAG(), 4); });
static Register d7("c15.n4afhk3", "C15", "all members of TA(4,{a:0,f:1,h:3},<=3 rules) with >=1 leaf rule and >=1 final state (ternary rules with repeated children)", [](Env& e) { c15Body(e, "c15.n4afhk3", 4, dom::SigmaAFH(), 3, true); });
static Register d8("c15.n3afhk3", "C15", "all of TA(3,{a:0,f:1,h:3},<=3 rules)", [](Env& e) { c15Body(e, "c15.n3afhk3", 3, dom::SigmaAFH(), 3); });
static Register a9("c03.n4abfk5", "C03", "all of TA(4,{a:0,b:0,f:1},<=5 rules) (word-like: long chains)", [](Env& e) { c03Body(e, "c03.n4abfk5", 4, dom::SigmaABF(), 5); });
static Register a10("c03.n5abfk4", "C03", "all of TA(5,{a:0,b:0,f:1},<=4 rules)", [](Env& e) { c03Body(e, "c03.n5abfk4", 5, dom::SigmaABF(), 4); });
static Register d9("c15.n4abfk5", "C15", "all of TA(4,{a:0,b:0,f:1},<=5 rules) (word-like: long chains)", [](Env& e) { c15Body(e, "c15.n4abfk5", 4, dom::SigmaABF(), 5); });
static Register d10("c15.n5abfk4", "C15", "all of TA(5,{a:0,b:0,f:1},<=4 rules)", [](Env& e) { c15Body(e, "c15.n5abfk4", 5, dom::SigmaABF(), 4); });
static Register a7("c03.n3afhk3", "C03", "all of TA(3,{a:0,f:1,h:3},<=3 rules) (ternary rules with repeated children)", [](Env& e) { c03Body(e, "c03.n3afhk3", 3, dom::SigmaAFH(), 3); });
static Register a8("c03.n4afhk3", "C03", "all members of TA(4,{a:0,f:1,h:3},<=3 rules) with >=1 leaf rule", [](Env& e) { c03Body(e, "c03.n4afhk3", 4, dom::SigmaAFH(), 3, true); });
}  // namespace c03
