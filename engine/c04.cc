// C04 — tree-automata simulations are the greatest downward / upward simulations, for every dense numbering.
#include "runner.hh"
#include "domain.hh"
#include <vata/sim_param.hh>

using namespace verif; using namespace VATA;

namespace c04 {

static std::string relStr(const std::map<std::pair<size_t, size_t>, bool>& S, size_t n) {
  std::string s; for (size_t q = 0; q < n; q++) { for (size_t r = 0; r < n; r++) s += S.at({q, r}) ? '1' : '0'; s += '/'; } return s;
}

static void body(Env& env, const std::string& stage, int n, const dom::Alphabet& sig, int k) {
  auto D = std::make_shared<dom::TADomain>(n, sig, k);
  std::vector<std::vector<size_t>> perms; { std::vector<size_t> p(n); for (int i = 0; i < n; i++) p[i] = i; do perms.push_back(p); while (std::next_permutation(p.begin(), p.end())); }
  dom::forEachTA(env, stage, D, [D, perms, n](const ref::TA& A0, size_t idx, Ctx& c) {
    if ((int)A0.states().size() != n) return;     // precondition of the statement: states are exactly 0..n-1
    c.evals(); uint64_t w = A0.rules.size();
    bool trimmed = !dom::hasUseless(A0);
    if (A0.rules.size() >= 2) c.nontrivial();
    c.count(trimmed ? "trimmed" : "not_trimmed");
    if (c.wantSample() && trimmed && A0.rules.size() >= 3) c.sample(D->str(A0));
    std::vector<size_t> sts; for (int i = 0; i < n; i++) sts.push_back(i);
    for (auto& pi : perms) for (int order = 0; order < 2; order++) {
      ref::TA A = ref::mapStatesF(A0, [&pi](size_t q) { return pi[q]; });
      std::string tag = "perm="; for (auto x : pi) tag += std::to_string(x); tag += order ? " order=desc" : " order=asc";
      ExplicitTreeAut a = dom::build(A, order == 1);
      for (int up = 0; up < 2; up++) {
        if (up && !trimmed) continue;
        auto expect = up ? ref::upSim(A, sts) : ref::downSim(A, sts);
        const char* sub = up ? "ComputeSimulation/upward" : "ComputeSimulation/downward";
        try {
          SimParam sp; sp.SetNumStates(n); sp.SetRelation(up ? SimParam::e_sim_relation::TA_UPWARD : SimParam::e_sim_relation::TA_DOWNWARD);
          AutBase::StateDiscontBinaryRelation s = a.ComputeSimulation(sp);
          std::map<std::pair<size_t, size_t>, bool> got; bool tooBig = false, tooSmall = false;
          for (auto q : sts) for (auto r : sts) { bool g = s.get(q, r); got[{q, r}] = g; if (g && !expect[{q, r}]) tooBig = true; if (!g && expect[{q, r}]) tooSmall = true; }
          c.count(up ? "up_calls" : "down_calls"); verif::obs(relStr(got, n));
          bool nonId = false; for (auto q : sts) for (auto r : sts) if (q != r && expect[{q, r}]) nonId = true; if (nonId) c.count(up ? "up_nonidentity" : "down_nonidentity");
          if (tooBig || tooSmall) {
            std::vector<std::string> feats; if (dom::hasBinary(A)) feats.push_back("binary_rule"); bool ident = true; for (int i = 0; i < n; i++) if (pi[i] != (size_t)i) ident = false; if (!ident) feats.push_back("non_identity_numbering");
            c.viol(sub, tooBig && tooSmall ? "relation_differs_both_ways" : tooBig ? "relation_too_big" : "relation_too_small", feats,
                   D->str(A) + " | " + tag + " expected=" + relStr(expect, n) + " got=" + relStr(got, n) + "\n--- A (timbuk)\n" + dom::timbuk(A, D->sig, "A"), w);
          }
        } catch (std::exception& e) { c.viol(sub, "exception", {}, D->str(A) + " | " + tag + " " + e.what(), w); }
      }
    }
  });
}

static Register r1("c04.n2s3k4", "C04", "all dense members of TA(2,{a:0,b:0,f:1,g:2},<=4) x 2 numberings x 2 insertion orders, down + (trimmed) up", [](Env& e) { body(e, "c04.n2s3k4", 2, dom::Sigma3(), 4); });
static Register r2("c04.n2s3k5", "C04", "all dense members of TA(2,{a:0,b:0,f:1,g:2},<=5) x 2 numberings x 2 orders", [](Env& e) { body(e, "c04.n2s3k5", 2, dom::Sigma3(), 5); });
static Register r3("c04.n3s3pk3", "C04", "all dense members of TA(3,{a:0,f:1,g:2},<=3) x 6 numberings x 2 orders", [](Env& e) { body(e, "c04.n3s3pk3", 3, dom::Sigma3p(), 3); });
static Register r4("c04.n3s3pk4", "C04", "all dense members of TA(3,{a:0,f:1,g:2},<=4) x 6 numberings x 2 orders", [](Env& e) { body(e, "c04.n3s3pk4", 3, dom::Sigma3p(), 4); });
static Register r5("c04.n2s3k6", "C04", "all dense members of TA(2,{a:0,b:0,f:1,g:2},<=6) x 2 numberings x 2 orders", [](Env& e) { body(e, "c04.n2s3k6", 2, dom::Sigma3(), 6); });

static Register r6("c04.n3s3pk5", "C04", "all dense members of TA(3,{a:0,f:1,g:2},<=5) x 6 numberings x 2 orders", [](Env& e) { body(e, "c04.n3s3pk5", 3, dom::Sigma3p(), 5); });
static Register r7("c04.n2afhk3", "C04", "all dense members of TA(2,{a:0,f:1,h:3},<=3) x 2 numberings x 2 orders (ternary rules)", [](Env& e) { body(e, "c04.n2afhk3", 2, dom::SigmaAFH(), 3); });
static Register r8("c04.n3ahk3", "C04", "all dense members of TA(3,{a:0,h:3},<=3) x 6 numberings x 2 orders", [](Env& e) { body(e, "c04.n3ahk3", 3, dom::SigmaAH(), 3); });
static Register r10("c04.n4abfk3", "C04", "all dense members of TA(4,{a:0,b:0,f:1},<=3 rules) x 24 numberings x 2 orders (word-like: chains)", [](Env& e) { body(e, "c04.n4abfk3", 4, dom::SigmaABF(), 3); });
static Register r11("c04.n4abfk4", "C04", "all dense members of TA(4,{a:0,b:0,f:1},<=4) x 24 numberings x 2 orders", [](Env& e) { body(e, "c04.n4abfk4", 4, dom::SigmaABF(), 4); });
static Register r13("c04.n4abfk5", "C04", "all dense members of TA(4,{a:0,b:0,f:1},<=5) x 24 numberings x 2 orders", [](Env& e) { body(e, "c04.n4abfk5", 4, dom::SigmaABF(), 5); });
static Register r12("c04.n3abfk6", "C04", "all dense members of TA(3,{a:0,b:0,f:1},<=6) x 6 numberings x 2 orders", [](Env& e) { body(e, "c04.n3abfk6", 3, dom::SigmaABF(), 6); });
static Register r9("c04.n2afhk4", "C04", "all dense members of TA(2,{a:0,f:1,h:3},<=4)", [](Env& e) { body(e, "c04.n2afhk4", 2, dom::SigmaAFH(), 4); });
}  // namespace c04
