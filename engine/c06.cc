// C06 — Complement accepts exactly the trees over the (private on-the-fly) alphabet that A rejects.
#include "runner.hh"
#include "domain.hh"

using namespace verif; using namespace VATA;

namespace c06 {

static void body(Env& env, const std::string& stage, int n, const dom::Alphabet& sig, int k, bool denseOnly) {
  auto D = std::make_shared<dom::TADomain>(n, sig, k);
  size_t ns = sig.ranks.size();
  std::vector<std::vector<int>> orders; { std::vector<int> p(ns); for (size_t i = 0; i < ns; i++) p[i] = (int)i; do orders.push_back(p); while (std::next_permutation(p.begin(), p.end())); }
  auto trees = std::make_shared<std::vector<std::vector<ref::Tree>>>();   // per registration order, trees over actual ids
  dom::forEachTA(env, stage, D, [D, orders, ns, denseOnly, n](const ref::TA& A0, size_t idx, Ctx& c) {
    // the complement construction indexes vectors by state number: the library's loaders number states densely
    // from 0; automata whose used states are not exactly 0..m-1 are a separate sub-check
    auto st = A0.states(); bool dense = true; { size_t e = 0; for (auto q : st) if (q != e++) dense = false; }
    if (denseOnly && !dense) return;
    if (!denseOnly && dense) return;
    c.evals(); uint64_t w = A0.rules.size();
    std::set<int> used; for (auto& r : A0.rules) used.insert(r.sym);
    bool empty = ref::emptyLang(A0);
    for (size_t oi = 0; oi < orders.size(); oi++) {
      auto& ord = orders[oi];
      // register the symbols in this order in a private alphabet
      auto alpha = std::make_shared<ExplicitTreeAut::OnTheFlyAlphabet>();
      std::map<int, int> id; std::map<int, size_t> ranks;   // domain symbol -> actual id ; actual id -> rank
      { auto tr = alpha->GetSymbolTransl(); for (int s : ord) { auto sy = (*tr)(ExplicitTreeAut::StringRank(D->sig.names[s], D->sig.ranks[s])); id[s] = (int)sy; ranks[(int)sy] = D->sig.ranks[s]; } }
      ref::TA A; A.finals = A0.finals; for (auto r : A0.rules) { r.sym = id[r.sym]; A.rules.insert(r); }
      // the order in which the final states are declared (their container is a hash set: iteration order = history) and whether they are declared before or after the
      // rules are enumeration dimensions too: every permutation of the final set under the first registration order, ascending / descending under the others
      std::vector<size_t> fperm(A.finals.begin(), A.finals.end()); size_t nperm = 1; for (size_t i = 2; i <= fperm.size(); i++) nperm *= i; if (oi != 0) nperm = std::min<size_t>(nperm, 2);
      for (size_t fp = 0; fp < nperm; fp++) {
      if (fp) { if (oi != 0) std::reverse(fperm.begin(), fperm.end()); else std::next_permutation(fperm.begin(), fperm.end()); }
      bool finalsFirst = (fp % 2) == 1; if (fp) c.count("class_final_states_declared_in_another_order");
      ExplicitTreeAut a; ExplicitTreeAut::AlphabetType al = alpha; a.SetAlphabet(al);
      if (finalsFirst) for (auto f : fperm) a.SetStateFinal(f);
      for (auto& r : A.rules) a.AddTransition(r.ch, r.sym, r.par); if (!finalsFirst) for (auto f : fperm) a.SetStateFinal(f);
      std::string tag = "registration order:"; for (int s : ord) tag += std::string(" ") + D->sig.names[s] + "=" + std::to_string(id[s]); tag += finalsFirst ? " | final states declared first, in the order" : " | final states declared after the rules, in the order"; for (auto f : fperm) tag += " " + std::to_string(f);
      std::vector<std::string> feats; if (used.size() < ns) feats.push_back("unused_registered_symbol"); if (empty) feats.push_back("empty_language"); if (!dense) feats.push_back("non_dense_states");
      bool universal = ref::universalOver(A, ranks);
      if (oi == 0 && fp == 0) { c.count(universal ? "A_universal" : "A_not_universal"); c.count(empty ? "A_empty" : "A_nonempty"); if (used.size() < ns) c.count("class_unused_registered_symbol"); if (!empty && !universal) c.nontrivial();
        if (c.wantSample() && !empty && !universal && A0.rules.size() >= 3) c.sample(D->str(A0)); }
      try {
        ExplicitTreeAut cm = a.Complement(); ref::TA C = dom::readBack(cm); c.count("complement_calls");
        std::string d = D->str(A0) + " | " + tag + " | complement (actual symbol ids): " + C.str() + "\n--- A (timbuk)\n" + dom::timbuk(A0, D->sig, "A");
        bool badSym = false; for (auto& r : C.rules) if (!ranks.count(r.sym) || ranks[r.sym] != r.ch.size()) badSym = true;
        if (badSym) c.viol("Complement", "symbol_outside_alphabet_or_wrong_rank", feats, d, w);
        if (!ref::emptyLang(ref::product(A, C))) c.viol("Complement", "accepts_a_tree_of_A", feats, d, w);
        if (!ref::universalOver(ref::disjointUnion(A, C), ranks)) c.viol("Complement", "rejects_a_tree_A_rejects", feats, d, w);
        if (dom::readBack(a) != A) c.viol("Complement", "operand_changed", feats, d, w);
        // independent second look: direct membership of all trees up to height 2
        std::vector<ref::Tree> ts; ref::treesUpTo(ranks, ns <= 3 ? 2 : 1, ts);
        for (auto& t : ts) { bool ia = ref::member(A, t), ic = ref::member(C, t); if (ia == ic) { c.viol("Complement", ia ? "tree_in_both" : "tree_in_neither", feats, d + "\ntree (actual ids): " + ref::treeStr(t), w); break; } }
      } catch (std::exception& e) { c.viol("Complement", "exception", feats, D->str(A0) + " | " + tag + " " + e.what(), w); }
      }
    }
  }, 64);
}

#define REG(var, name, n, sig, k, dense, txt) static Register var(name, "C06", txt, [](Env& e) { body(e, name, n, sig, k, dense); });
REG(r1, "c06.n2sLk4", 2, dom::SigmaL(), 4, true, "dense members of TA(2,{a:0,b:0},<=4), private alphabet, all registration orders")
REG(r2, "c06.n2sAk2", 2, dom::SigmaA(), 2, true, "dense members of TA(2,{a:0},<=2), private alphabet")
REG(r3, "c06.n2sAFk4", 2, dom::SigmaAF(), 4, true, "dense members of TA(2,{a:0,f:1},<=4), private alphabet, all registration orders")
REG(r4, "c06.n2s2k3", 2, dom::Sigma2(), 3, true, "dense members of TA(2,{a:0,b:0,g:2},<=3), private alphabet, all 6 registration orders")
REG(r5, "c06.n2s3k3", 2, dom::Sigma3(), 3, true, "dense members of TA(2,{a:0,b:0,f:1,g:2},<=3), private alphabet, all 24 registration orders")
REG(r6, "c06.n2s2k4", 2, dom::Sigma2(), 4, true, "dense members of TA(2,{a:0,b:0,g:2},<=4), all registration orders")
REG(r7, "c06.n2s3k4", 2, dom::Sigma3(), 4, true, "dense members of TA(2,{a:0,b:0,f:1,g:2},<=4), all registration orders")
REG(r8, "c06.n3agk3", 3, dom::SigmaAG(), 3, true, "dense members of TA(3,{a:0,g:2},<=3), all registration orders")
REG(r9, "c06.n2s2k5", 2, dom::Sigma2(), 5, true, "dense members of TA(2,{a:0,b:0,g:2},<=5), all registration orders")
REG(r10, "c06.n2ahk3", 2, dom::SigmaAH(), 3, true, "dense members of TA(2,{a:0,h:3},<=3), private alphabet (ternary symbol)")
REG(r11, "c06.n2afhk3", 2, dom::SigmaAFH(), 3, true, "dense members of TA(2,{a:0,f:1,h:3},<=3), private alphabet, all registration orders")
REG(r12, "c06.n3s2k4", 3, dom::Sigma2(), 4, true, "dense members of TA(3,{a:0,b:0,g:2},<=4), all registration orders")
REG(r13, "c06.n3s3pk4", 3, dom::Sigma3p(), 4, true, "dense members of TA(3,{a:0,f:1,g:2},<=4), all registration orders")
REG(r14, "c06.n4agk3", 4, dom::SigmaAG(), 3, true, "dense members of TA(4,{a:0,g:2},<=3), both registration orders")
REG(r15, "c06.n3afhk3", 3, dom::SigmaAFH(), 3, true, "dense members of TA(3,{a:0,f:1,h:3},<=3), all registration orders (ternary symbol)")
REG(r16, "c06.n3abfk5", 3, dom::SigmaABF(), 5, true, "dense members of TA(3,{a:0,b:0,f:1},<=5), all registration orders (word-like)")
REG(r17, "c06.n4abfk4", 4, dom::SigmaABF(), 4, true, "dense members of TA(4,{a:0,b:0,f:1},<=4), all registration orders")
REG(s2, "c06.sparse.n3s2k3", 3, dom::Sigma2(), 3, false, "NON-dense members (a state below the largest unused) of TA(3,{a:0,b:0,g:2},<=3)")
REG(s1, "c06.sparse.n2s2k3", 2, dom::Sigma2(), 3, false, "NON-dense members (state 0 unused) of TA(2,{a:0,b:0,g:2},<=3)")

}  // namespace c06
