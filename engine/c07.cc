// C07 — inclusion on BDD-encoded tree automata is exact (both encodings, every implemented parameter selection).
#include "runner.hh"
#include "bdd_glue.hh"
#include <vata/incl_param.hh>
#include <vata/sim_param.hh>

using namespace verif; using namespace VATA;

namespace c07 {

static InclParam mk(bool down, bool rec, bool opt, bool sim) { InclParam ip; ip.SetAlgorithm(InclParam::e_algorithm::antichains); ip.SetDirection(down ? InclParam::e_direction::downward : InclParam::e_direction::upward);
  ip.SetUseRecursion(rec); ip.SetUseDownwardCacheImpl(opt); ip.SetUseSimulation(sim); return ip; }

// 1/0 verdict, 2 std::exception (3 NotImplementedException), 4 other
template <class F> static int guardRaw(F f, std::string* what);
template <class F> static int guard(F f, std::string* what) { int r = guardRaw(f, what); verif::obs((uint64_t)r + 23); return r; }
template <class F> static int guardRaw(F f, std::string* what) { try { return f() ? 1 : 0; } catch (NotImplementedException& e) { if (what) *what = e.what(); return 3; } catch (std::exception& e) { if (what) *what = e.what(); return 2; } catch (...) { return 4; } }

struct PairSrc { std::shared_ptr<dom::TADomain> D, DB; std::shared_ptr<dom::PairIndex> P; uint64_t total;
  std::pair<ref::TA, ref::TA> get(uint64_t idx) const { if (P) { auto ij = P->get(idx); return {D->get(ij.first), D->get(ij.second)}; } return {D->get(idx / DB->size()), DB->get(idx % DB->size())}; } };
static void bodySrc(Env& env, const std::string& stage, PairSrc S);
static void body(Env& env, const std::string& stage, int n, const dom::Alphabet& sig, int perSide, int totalMax) {
  PairSrc S; S.D = std::make_shared<dom::TADomain>(n, sig, perSide); S.P = std::make_shared<dom::PairIndex>(*S.D, totalMax); S.total = S.P->total; env.noteNum(stage + ".automata", S.D->size()); bodySrc(env, stage, S); }
// pairs of TRIMMED automata: A with <= ka rules, B with <= kb rules (leaf rule and final state required)
static void bodyTrim(Env& env, const std::string& stage, int n, const dom::Alphabet& sig, int ka, int kb) {
  PairSrc S; S.D = std::make_shared<dom::TADomain>(n, sig, ka, false, true); S.D->keepTrimmedOnly(); S.DB = std::make_shared<dom::TADomain>(n, sig, kb, false, true); S.DB->keepTrimmedOnly(); S.total = (uint64_t)S.D->size() * S.DB->size();
  env.noteNum(stage + ".trimmed_automata_A", S.D->size()); env.noteNum(stage + ".trimmed_automata_B", S.DB->size()); bodySrc(env, stage, S); }
static void bodySrc(Env& env, const std::string& stage, PairSrc S) {
  auto D = S.D;
  ParallelOpts o; o.stage = stage; o.size = S.total; o.block = 128; o.caseTimeout = 30;
  o.describe = [D, S](uint64_t idx) { auto ab = S.get(idx); return "A: " + D->str(ab.first) + " | B: " + D->str(ab.second); };
  o.run = [D, S](uint64_t idx, Ctx& c) {
    auto ab = S.get(idx); ref::TA A = ab.first, B = ab.second; bool expect = ref::included(A, B); bool eA = ref::emptyLang(A), eB = ref::emptyLang(B);
    c.evals(); uint64_t w = A.rules.size() + B.rules.size(); if (!eA && !eB && A != B) c.nontrivial(); c.count(expect ? "expect_included" : "expect_not_included"); if (!eA && expect) c.count("nonemptyA_included");
    bool binB = dom::hasBinary(ref::trimmed(B)), binA = dom::hasBinary(ref::trimmed(A)); if (binA && binB) c.count("class_binary_rules_both_trimmed");
    if (c.wantSample() && !eA && !eB && A != B && w >= 4) c.sample("A: " + D->str(A) + " | B: " + D->str(B) + " | included=" + (expect ? "1" : "0"));
    auto report = [&](const std::string& sub, int got, const std::string& what) {
      if (got == (expect ? 1 : 0)) return; std::string cls = got >= 2 ? (got == 3 ? "not_implemented_exception" : "exception") : got == 1 ? "says_included_but_is_not" : "says_not_included_but_is";
      std::vector<std::string> feats; if (binA && binB) feats.push_back("non_unary_rule_in_both_trimmed_operands");
      c.viol(sub, cls, feats, "A: " + D->str(A) + " | B: " + D->str(B) + " | " + sub + " expected=" + (expect ? "1" : "0") + " got=" + std::to_string(got) + (what.empty() ? "" : " what=" + what) +
             "\n--- A (timbuk)\n" + dom::timbuk(A, D->sig, "A") + "--- B (timbuk)\n" + dom::timbuk(B, D->sig, "B"), w); };
    std::string what;
    // ---- top-down encoding
    { BDDTopDownTreeAut a = bddg::load<BDDTopDownTreeAut>(A, D->sig), b = bddg::load<BDDTopDownTreeAut>(B, D->sig);
      for (int opt = 0; opt < 2; opt++) { what.clear(); InclParam ip = mk(true, true, opt, false); int g = guard([&] { return BDDTopDownTreeAut::CheckInclusion(a, b, ip); }, &what); c.count("calls"); report(std::string("bdd-td/CheckInclusion/down_rec") + (opt ? "_opt" : "") + "_nosim", g, what); } }
    // top-down with a simulation obtained the way the library itself obtains one (bottom-up downward simulation of the prepared union)
    for (int opt = 0; opt < 2; opt++) { what.clear(); int g = guard([&] {
        BDDBottomUpTreeAut a = bddg::load<BDDBottomUpTreeAut>(A, D->sig), b = bddg::load<BDDBottomUpTreeAut>(B, D->sig); AutBase::StateType st = AutBase::SanitizeAutsForInclusion(a, b);
        BDDBottomUpTreeAut u = BDDBottomUpTreeAut::UnionDisjointStates(a, b); SimParam sp; sp.SetRelation(SimParam::e_sim_relation::TA_DOWNWARD); sp.SetNumStates(st); AutBase::StateDiscontBinaryRelation sim = u.ComputeSimulation(sp);
        BDDTopDownTreeAut ta = a.GetTopDownAut(), tb = b.GetTopDownAut(); InclParam ip = mk(true, true, opt, true); ip.SetSimulation(&sim); return BDDTopDownTreeAut::CheckInclusion(ta, tb, ip); }, &what);
      c.count("calls"); report(std::string("bdd-td/CheckInclusion/down_rec") + (opt ? "_opt" : "") + "_sim", g, what); }
    // ---- bottom-up encoding
    { BDDBottomUpTreeAut a = bddg::load<BDDBottomUpTreeAut>(A, D->sig), b = bddg::load<BDDBottomUpTreeAut>(B, D->sig);
      { what.clear(); InclParam ip = mk(false, false, false, false); int g = guard([&] { return BDDBottomUpTreeAut::CheckInclusion(a, b, ip); }, &what); c.count("calls"); report("bdd-bu/CheckInclusion/up_nosim", g, what); }
      { what.clear(); int g = guard([&] { return BDDBottomUpTreeAut::CheckInclusion(a, b); }, &what); c.count("calls"); report("bdd-bu/CheckInclusion/default", g, what); }
      { what.clear(); InclParam ip = mk(true, true, false, true); int g = guard([&] { return BDDBottomUpTreeAut::CheckInclusion(a, b, ip); }, &what); c.count("calls"); report("bdd-bu/CheckInclusion/down_rec_sim", g, what); }
      // upward with a supplied simulation: the identity on the prepared operands is a (trivial) upward simulation
      { what.clear(); int g = guard([&] { BDDBottomUpTreeAut a2(a), b2(b); AutBase::StateType st = AutBase::SanitizeAutsForInclusion(a2, b2); Util::BinaryRelation id(st, false); for (size_t q = 0; q < st; q++) id.set(q, q, true);
          Util::DiscontBinaryRelation::DictType dict; for (size_t q = 0; q < st; q++) dict.insert({q, q}); AutBase::StateDiscontBinaryRelation sim(id, dict); InclParam ip = mk(false, false, false, true); ip.SetSimulation(&sim); return BDDBottomUpTreeAut::CheckInclusion(a2, b2, ip); }, &what);
        c.count("calls"); report("bdd-bu/CheckInclusion/up_sim(identity)", g, what); } }
    // ---- the verdict of the explicit encoding on the same pair
    { ExplicitTreeAut a = dom::build(A), b = dom::build(B); what.clear(); int g = guard([&] { return ExplicitTreeAut::CheckInclusion(a, b); }, &what); report("expl/CheckInclusion/default", g, what); }
  };
  env.parallel(o);
}

// every other flag combination must throw (never answer)
static void unimpl(Env& env) {
  auto D = std::make_shared<dom::TADomain>(2, dom::Sigma2(), 1); uint64_t M = D->size();
  ParallelOpts o; o.stage = "c07.unimpl"; o.size = M * M; o.block = 32; o.caseTimeout = 30;
  o.run = [D, M](uint64_t idx, Ctx& c) { ref::TA A = D->get(idx / M), B = D->get(idx % M); c.evals();
    std::set<unsigned> td = {InclParam::ANTICHAINS_DOWN_REC_NOSIM, InclParam::ANTICHAINS_DOWN_REC_OPT_NOSIM, InclParam::ANTICHAINS_DOWN_REC_SIM, InclParam::ANTICHAINS_DOWN_REC_OPT_SIM};
    std::set<unsigned> bu = {InclParam::ANTICHAINS_UP_NOSIM, InclParam::ANTICHAINS_UP_SIM, InclParam::ANTICHAINS_DOWN_REC_SIM};
    BDDTopDownTreeAut ta = bddg::load<BDDTopDownTreeAut>(A, D->sig), tb = bddg::load<BDDTopDownTreeAut>(B, D->sig); BDDBottomUpTreeAut ba = bddg::load<BDDBottomUpTreeAut>(A, D->sig), bb = bddg::load<BDDBottomUpTreeAut>(B, D->sig);
    for (unsigned fl = 0; fl < 128; fl++) { InclParam ip; ip.flags_ = fl; AutBase::StateDiscontBinaryRelation sim; ip.SetSimulation(&sim);
      if (!td.count(fl)) { bool threw = false; try { BDDTopDownTreeAut::CheckInclusion(ta, tb, ip); } catch (std::exception&) { threw = true; } c.count("unimpl_calls"); if (!threw) c.viol("bdd-td/CheckInclusion/unimplemented", "answered_instead_of_throwing", {}, "flags=" + std::to_string(fl) + " A: " + D->str(A) + " | B: " + D->str(B)); }
      if (!bu.count(fl)) { bool threw = false; try { BDDBottomUpTreeAut::CheckInclusion(ba, bb, ip); } catch (std::exception&) { threw = true; } c.count("unimpl_calls"); if (!threw) c.viol("bdd-bu/CheckInclusion/unimplemented", "answered_instead_of_throwing", {}, "flags=" + std::to_string(fl) + " A: " + D->str(A) + " | B: " + D->str(B)); } } };
  env.parallel(o);
}

static Register r0("c07.unimpl", "C07", "unimplemented InclParam combinations throw in both BDD encodings", unimpl);
static Register r1("c07.n2s2k2", "C07", "pairs of TA(2,{a:0,b:0,g:2},<=2 per side): all implemented BDD inclusion variants", [](Env& e) { body(e, "c07.n2s2k2", 2, dom::Sigma2(), 2, 4); });
static Register r2("c07.n2s2k3", "C07", "pairs of TA(2,{a:0,b:0,g:2},<=3 per side)", [](Env& e) { body(e, "c07.n2s2k3", 2, dom::Sigma2(), 3, 6); });
static Register r3("c07.n2s3k2", "C07", "pairs of TA(2,{a:0,b:0,f:1,g:2},<=2 per side)", [](Env& e) { body(e, "c07.n2s3k2", 2, dom::Sigma3(), 2, 4); });
static Register r4("c07.n2s3k3", "C07", "pairs of TA(2,{a:0,b:0,f:1,g:2},<=3 per side)", [](Env& e) { body(e, "c07.n2s3k3", 2, dom::Sigma3(), 3, 6); });
static Register r5("c07.n3s3pt4", "C07", "pairs of TA(3,{a:0,f:1,g:2}), total <=4 rules", [](Env& e) { body(e, "c07.n3s3pt4", 3, dom::Sigma3p(), 4, 4); });
static Register r6("c07.n2s2k4", "C07", "pairs of TA(2,{a:0,b:0,g:2},<=4 per side)", [](Env& e) { body(e, "c07.n2s2k4", 2, dom::Sigma2(), 4, 8); });

static Register o1("c07.ov.n2k3", "C07", "pairs of TA(2,{a:0,a:2,b:0},<=3 per side, total <=5): one symbol name with two arities", [](Env& e) { body(e, "c07.ov.n2k3", 2, dom::SigmaOv(), 3, 5); });
static Register t1("c07.trim.n3s2.a3b4", "C07", "pairs of TRIMMED automata of TA(3,{a:0,b:0,g:2}): A <=3 rules x B <=4 rules", [](Env& e) { bodyTrim(e, "c07.trim.n3s2.a3b4", 3, dom::Sigma2(), 3, 4); });
static Register t2("c07.trim.n3s2.a3b3", "C07", "pairs of TRIMMED automata of TA(3,{a:0,b:0,g:2}): A <=3 rules x B <=3 rules", [](Env& e) { bodyTrim(e, "c07.trim.n3s2.a3b3", 3, dom::Sigma2(), 3, 3); });
static Register t3("c07.trim.n2s2.a4b4", "C07", "pairs of TRIMMED automata of TA(2,{a:0,b:0,g:2},<=4 rules)", [](Env& e) { bodyTrim(e, "c07.trim.n2s2.a4b4", 2, dom::Sigma2(), 4, 4); });
static Register t4("c07.trim.n2s3.a4b4", "C07", "pairs of TRIMMED automata of TA(2,{a:0,b:0,f:1,g:2},<=4 rules)", [](Env& e) { bodyTrim(e, "c07.trim.n2s3.a4b4", 2, dom::Sigma3(), 4, 4); });
static Register t5("c07.trim.n2s2.a3b3", "C07", "pairs of TRIMMED automata of TA(2,{a:0,b:0,g:2},<=3 rules)", [](Env& e) { bodyTrim(e, "c07.trim.n2s2.a3b3", 2, dom::Sigma2(), 3, 3); });
static Register t6("c07.trim.n3s2.a2b3", "C07", "pairs of TRIMMED automata of TA(3,{a:0,b:0,g:2}): A <=2 rules x B <=3 rules", [](Env& e) { bodyTrim(e, "c07.trim.n3s2.a2b3", 3, dom::Sigma2(), 2, 3); });
static Register t7("c07.trim.n3ah.a2b3", "C07", "pairs of TRIMMED automata of TA(3,{a:0,h:3}): A <=2 x B <=3 rules (ternary symbol: large tuple products)", [](Env& e) { bodyTrim(e, "c07.trim.n3ah.a2b3", 3, dom::SigmaAH(), 2, 3); });
static Register t8b("c07.trim.n3ah.a3b3", "C07", "pairs of TRIMMED automata of TA(3,{a:0,h:3}): A <=3 x B <=3 rules", [](Env& e) { bodyTrim(e, "c07.trim.n3ah.a3b3", 3, dom::SigmaAH(), 3, 3); });
static Register t8("c07.trim.n3ah.a3b4", "C07", "pairs of TRIMMED automata of TA(3,{a:0,h:3}): A <=3 x B <=4 rules", [](Env& e) { bodyTrim(e, "c07.trim.n3ah.a3b4", 3, dom::SigmaAH(), 3, 4); });
static Register t10("c07.trim.n3abf.a4b2", "C07", "pairs of TRIMMED automata of TA(3,{a:0,b:0,f:1}): A <=4 x B <=2 rules (unary chains/loops: the recursive downward search revisits ancestors)", [](Env& e) { bodyTrim(e, "c07.trim.n3abf.a4b2", 3, dom::SigmaABF(), 4, 2); });
static Register t11("c07.trim.n3abf.a5b3", "C07", "pairs of TRIMMED automata of TA(3,{a:0,b:0,f:1}): A <=5 x B <=3 rules", [](Env& e) { bodyTrim(e, "c07.trim.n3abf.a5b3", 3, dom::SigmaABF(), 5, 3); });
static Register t13("c07.trim.n3abf.a4b3", "C07", "pairs of TRIMMED automata of TA(3,{a:0,b:0,f:1}): A <=4 x B <=3 rules", [](Env& e) { bodyTrim(e, "c07.trim.n3abf.a4b3", 3, dom::SigmaABF(), 4, 3); });
static Register t12("c07.trim.n4abf.a4b3", "C07", "pairs of TRIMMED automata of TA(4,{a:0,b:0,f:1}): A <=4 x B <=3 rules", [](Env& e) { bodyTrim(e, "c07.trim.n4abf.a4b3", 4, dom::SigmaABF(), 4, 3); });
static Register t9("c07.trim.n4ag.a2b4", "C07", "pairs of TRIMMED automata of TA(4,{a:0,g:2}): A <=2 x B <=4 rules", [](Env& e) { bodyTrim(e, "c07.trim.n4ag.a2b4", 4, dom::SigmaAG(), 2, 4); });
}  // namespace c07
