// C08 — BDD-encoded automata: load/dump, union, intersection, trimming, inversion keep exact languages
// (single calls: E-ENUM; sequences over automata sharing a transition table: E-HIST).
#include "hist.hh"
#include "bdd_glue.hh"
#include "bdd_bu_tree_aut_core.hh"
#include "bdd_td_tree_aut_core.hh"
#include "loadable_aut.hh"

using namespace verif; using namespace VATA;

namespace c08 {

template <class Aut> struct Enc;
template <> struct Enc<BDDBottomUpTreeAut> { static const char* name() { return "bdd-bu"; } };
template <> struct Enc<BDDTopDownTreeAut> { static const char* name() { return "bdd-td"; } };

template <class Aut> static void singleEnc(const ref::TA& A, const dom::TADomain& D, Ctx& c, uint64_t w) {
  std::string enc = Enc<Aut>::name();
  auto det = [&](const std::string& x) { return D.str(A) + " | " + enc + " | " + x + "\n--- A (timbuk)\n" + dom::timbuk(A, D.sig, "A"); };
  auto bad = [&](const std::string& sub, const std::string& cls, const std::string& x) { c.viol(enc + "/" + sub, cls, {}, det(x), w); };
  try {
    Aut a = bddg::load<Aut>(A, D.sig); ref::TA L = bddg::modelOf(a, D.sig); c.count("bdd_calls");
    if (!ref::equalLang(L, A)) { bad("load+dump", "language_differs_from_explicit", "dump: " + L.str(D.sig.names.data())); return; }
    auto operandSame = [&](const char* sub) { ref::TA L2 = bddg::modelOf(a, D.sig); if (!ref::equalLang(L2, A)) bad(sub, "operand_language_changed", "operand now: " + L2.str(D.sig.names.data())); };
    { Aut r = a.RemoveUnreachableStates(); ref::TA R = bddg::modelOf(r, D.sig); if (!ref::equalLang(R, A)) bad("RemoveUnreachableStates", "language_changed", "result: " + R.str(D.sig.names.data())); operandSame("RemoveUnreachableStates"); }
    { Aut r = a.RemoveUselessStates(); ref::TA R = bddg::modelOf(r, D.sig); if (!ref::equalLang(R, A)) bad("RemoveUselessStates", "language_changed", "result: " + R.str(D.sig.names.data()));
      auto u = ref::useful(R); bool left = false; for (auto q : R.states()) if (!u.count(q)) left = true; for (auto& x : R.rules) if (!ref::usefulRule(x, u)) left = true; if (left) bad("RemoveUselessStates", "useless_state_or_rule_left", "result: " + R.str(D.sig.names.data())); operandSame("RemoveUselessStates"); }
    { Aut cp(a); ref::TA R = bddg::modelOf(cp, D.sig); if (!ref::equalLang(R, A)) bad("copy", "language_changed", "copy: " + R.str(D.sig.names.data())); Aut as; as = a; ref::TA R2 = bddg::modelOf(as, D.sig); if (!ref::equalLang(R2, A)) bad("assign", "language_changed", "copy: " + R2.str(D.sig.names.data())); }
    // the same automaton on huge state numbers (the loader's counter starts at 2^40): load, dump, both trimmings, copy
    { AutBase::StateDict sd; AutBase::StateType cnt = (AutBase::StateType)1 << 40; Aut h = bddg::loadD<Aut>(A, D.sig, sd, cnt); c.count("bdd_huge_state_number_loads");
      { ref::TA R = bddg::modelOf(h, D.sig); if (!ref::equalLang(R, A)) bad("load+dump(huge state numbers)", "language_differs_from_explicit", "dump: " + R.str(D.sig.names.data())); }
      { Aut r = h.RemoveUnreachableStates(); ref::TA R = bddg::modelOf(r, D.sig); if (!ref::equalLang(R, A)) bad("RemoveUnreachableStates(huge state numbers)", "language_changed", "result: " + R.str(D.sig.names.data())); }
      { Aut r = h.RemoveUselessStates(); ref::TA R = bddg::modelOf(r, D.sig); if (!ref::equalLang(R, A)) bad("RemoveUselessStates(huge state numbers)", "language_changed", "result: " + R.str(D.sig.names.data())); }
      { Aut r = Aut::Union(h, a); ref::TA R = bddg::modelOf(r, D.sig); if (!ref::equalLang(R, A)) bad("Union(huge state numbers, small state numbers)", "language_not_the_union", "result: " + R.str(D.sig.names.data())); }
      { Aut r = Aut::Intersection(h, a); ref::TA R = bddg::modelOf(r, D.sig); if (!ref::equalLang(R, A)) bad("Intersection(huge state numbers, small state numbers)", "language_not_the_intersection", "result: " + R.str(D.sig.names.data())); } }
  } catch (std::exception& e) { bad("single-automaton operations", "exception", e.what()); }
}

static void single(Env& env, const std::string& stage, int n, const dom::Alphabet& sig, int k) {
  auto D = std::make_shared<dom::TADomain>(n, sig, k);
  dom::forEachTA(env, stage, D, [D](const ref::TA& A, size_t idx, Ctx& c) {
    c.evals(); uint64_t w = A.rules.size(); bool empty = ref::emptyLang(A); if (!empty) c.nontrivial(); c.count(empty ? "lang_empty" : "lang_nonempty"); if (dom::hasUseless(A)) c.count("class_useless_states");
    if (c.wantSample() && !empty && A.rules.size() >= 3) c.sample(D->str(A));
    singleEnc<BDDBottomUpTreeAut>(A, *D, c, w); singleEnc<BDDTopDownTreeAut>(A, *D, c, w);
    // bottom-up -> top-down conversion
    try { BDDBottomUpTreeAut a = bddg::load<BDDBottomUpTreeAut>(A, D->sig); BDDTopDownTreeAut t = a.GetTopDownAut(); ref::TA T = bddg::modelOf(t, D->sig);
      if (!ref::equalLang(T, A)) c.viol("bdd-bu/GetTopDownAut", "language_changed", {}, D->str(A) + " | result: " + T.str(D->sig.names.data()) + "\n--- A (timbuk)\n" + dom::timbuk(A, D->sig, "A"), w);
      ref::TA L2 = bddg::modelOf(a, D->sig); if (!ref::equalLang(L2, A)) c.viol("bdd-bu/GetTopDownAut", "operand_language_changed", {}, D->str(A), w);
    } catch (std::exception& e) { c.viol("bdd-bu/GetTopDownAut", "exception", {}, D->str(A) + " " + e.what(), w); }
  }, 64, 30);
}

template <class Aut> static void pairEnc(const ref::TA& A, const ref::TA& B, const dom::TADomain& D, Ctx& c, uint64_t w, int n) {
  std::string enc = Enc<Aut>::name();
  auto det = [&](const std::string& x) { return "A: " + D.str(A) + " | B: " + D.str(B) + " | " + enc + " | " + x + "\n--- A (timbuk)\n" + dom::timbuk(A, D.sig, "A") + "--- B (timbuk)\n" + dom::timbuk(B, D.sig, "B"); };
  auto bad = [&](const std::string& sub, const std::string& cls, const std::string& x) { c.viol(enc + "/" + sub, cls, {}, det(x), w); };
  try {
    Aut a = bddg::load<Aut>(A, D.sig), b = bddg::load<Aut>(B, D.sig); c.count("bdd_pair_calls");
    auto operandsSame = [&](const char* sub) { if (!ref::equalLang(bddg::modelOf(a, D.sig), A) || !ref::equalLang(bddg::modelOf(b, D.sig), B)) bad(sub, "operand_language_changed", ""); };
    ref::TA U = ref::disjointUnion(A, B), P = ref::product(A, B);
    { Aut r = Aut::Union(a, b); ref::TA R = bddg::modelOf(r, D.sig); if (!ref::equalLang(R, U)) bad("Union", "language_not_the_union", "result: " + R.str(D.sig.names.data())); operandsSame("Union"); }
    { AutBase::StateToStateMap ma, mb; Aut r = Aut::Union(a, b, &ma, &mb); ref::TA R = bddg::modelOf(r, D.sig); if (!ref::equalLang(R, U)) bad("Union(maps)", "language_not_the_union", "result: " + R.str(D.sig.names.data())); }
    { Aut r = Aut::Intersection(a, b); ref::TA R = bddg::modelOf(r, D.sig); if (!ref::equalLang(R, P)) bad("Intersection", "language_not_the_intersection", "result: " + R.str(D.sig.names.data())); operandsSame("Intersection"); }
    { AutBase::ProductTranslMap pm; Aut r = Aut::Intersection(a, b, &pm); ref::TA R = bddg::modelOf(r, D.sig); if (!ref::equalLang(R, P)) bad("Intersection(map)", "language_not_the_intersection", "result: " + R.str(D.sig.names.data())); }
    { // UnionDisjointStates: two automata loaded through one state dictionary and one counter get disjoint state numbers
      AutBase::StateDict sd; AutBase::StateType cnt = 0; ref::TA B2 = ref::shift(B, n); Aut a2 = bddg::loadD<Aut>(A, D.sig, sd, cnt), b2 = bddg::loadD<Aut>(B2, D.sig, sd, cnt);
      Aut r = Aut::UnionDisjointStates(a2, b2); ref::TA R = bddg::modelOf(r, D.sig); if (!ref::equalLang(R, U)) bad("UnionDisjointStates", "language_not_the_union", "result: " + R.str(D.sig.names.data()));
      if (!ref::equalLang(bddg::modelOf(a2, D.sig), A) || !ref::equalLang(bddg::modelOf(b2, D.sig), B)) bad("UnionDisjointStates", "operand_language_changed", "lhs now: " + bddg::modelOf(a2, D.sig).str(D.sig.names.data()) + " rhs now: " + bddg::modelOf(b2, D.sig).str(D.sig.names.data())); }
    if (A == B) { c.count("aliased_operand_cases");   // the same object as both operands
      { Aut r = Aut::Union(a, a); ref::TA R = bddg::modelOf(r, D.sig); if (!ref::equalLang(R, A)) bad("Union(aliased)", "language_not_the_union", "Union(a, a); result: " + R.str(D.sig.names.data())); }
      { Aut r = Aut::Intersection(a, a); ref::TA R = bddg::modelOf(r, D.sig); if (!ref::equalLang(R, A)) bad("Intersection(aliased)", "language_not_the_intersection", "Intersection(a, a); result: " + R.str(D.sig.names.data())); }
      if (!ref::equalLang(bddg::modelOf(a, D.sig), A)) bad("aliased", "operand_language_changed", ""); }
  } catch (std::exception& e) { bad("pair operations", "exception", e.what()); }
}

static void pairs(Env& env, const std::string& stage, int n, const dom::Alphabet& sig, int perSide, int totalMax, bool trimmedOnly = false) {
  auto D = std::make_shared<dom::TADomain>(n, sig, perSide, !trimmedOnly, trimmedOnly); if (trimmedOnly) D->keepTrimmedOnly(); auto P = std::make_shared<dom::PairIndex>(*D, totalMax);
  env.noteNum(stage + ".automata", D->size());
  ParallelOpts o; o.stage = stage; o.size = P->total; o.block = 128; o.caseTimeout = 30;
  o.describe = [D, P](uint64_t idx) { auto ij = P->get(idx); return "A: " + D->str(D->get(ij.first)) + " | B: " + D->str(D->get(ij.second)); };
  o.run = [D, P, n](uint64_t idx, Ctx& c) { auto ij = P->get(idx); ref::TA A = D->get(ij.first), B = D->get(ij.second); c.evals(); uint64_t w = A.rules.size() + B.rules.size();
    if (!ref::emptyLang(A) && !ref::emptyLang(B) && A != B) c.nontrivial(); c.count(ref::emptyLang(ref::product(A, B)) ? "intersection_empty" : "intersection_nonempty");
    if (c.wantSample() && !ref::emptyLang(ref::product(A, B)) && A != B && w >= 4) c.sample("A: " + D->str(A) + " | B: " + D->str(B));
    pairEnc<BDDBottomUpTreeAut>(A, B, *D, c, w, n); pairEnc<BDDTopDownTreeAut>(A, B, *D, c, w, n); };
  env.parallel(o);
}

static Register s1("c08.single.n2s2k3", "C08", "every automaton of TA(2,{a:0,b:0,g:2},<=3): load/dump, trimming, copy/assign in both BDD encodings, BU->TD conversion", [](Env& e) { single(e, "c08.single.n2s2k3", 2, dom::Sigma2(), 3); });
static Register s2("c08.single.n2s3k4", "C08", "every automaton of TA(2,{a:0,b:0,f:1,g:2},<=4)", [](Env& e) { single(e, "c08.single.n2s3k4", 2, dom::Sigma3(), 4); });
static Register s3("c08.single.n3s3pk3", "C08", "every automaton of TA(3,{a:0,f:1,g:2},<=3)", [](Env& e) { single(e, "c08.single.n3s3pk3", 3, dom::Sigma3p(), 3); });
static Register p1("c08.pairs.n2s2k2", "C08", "all ordered pairs of TA(2,{a:0,b:0,g:2},<=2): Union, UnionDisjointStates, Intersection in both BDD encodings", [](Env& e) { pairs(e, "c08.pairs.n2s2k2", 2, dom::Sigma2(), 2, 4); });
static Register p2("c08.pairs.n2s2k3", "C08", "all ordered pairs of TA(2,{a:0,b:0,g:2},<=3)", [](Env& e) { pairs(e, "c08.pairs.n2s2k3", 2, dom::Sigma2(), 3, 6); });
static Register p3("c08.pairs.n2s3k2", "C08", "all ordered pairs of TA(2,{a:0,b:0,f:1,g:2},<=2)", [](Env& e) { pairs(e, "c08.pairs.n2s3k2", 2, dom::Sigma3(), 2, 4); });

static Register s4("c08.single.ov.n2k4", "C08", "every automaton of TA(2,{a:0,a:2,b:0},<=4): one symbol name with two arities", [](Env& e) { single(e, "c08.single.ov.n2k4", 2, dom::SigmaOv(), 4); });
static Register p7("c08.pairs.ov.n2k3", "C08", "all ordered pairs of TA(2,{a:0,a:2,b:0},<=3 per side, total <=5): one symbol name with two arities", [](Env& e) { pairs(e, "c08.pairs.ov.n2k3", 2, dom::SigmaOv(), 3, 5); });
static Register p8("c08.pairs.ov1.n2k2", "C08", "all ordered pairs of TA(2,{a:0,a:1,a:2},<=2 per side): one symbol name with three arities", [](Env& e) { pairs(e, "c08.pairs.ov1.n2k2", 2, dom::SigmaOv1(), 2, 4); });
static Register p9("c08.pairs.ov.trim.n2k3", "C08", "all ordered pairs of TRIMMED automata of TA(2,{a:0,b:0,a:2},<=3 per side): one symbol name with two arities", [](Env& e) { pairs(e, "c08.pairs.ov.trim.n2k3", 2, dom::SigmaOv(), 3, 6, true); });
static Register p6("c08.pairs.trim.n2s2k3", "C08", "all ordered pairs of TRIMMED automata of TA(2,{a:0,b:0,g:2},<=3)", [](Env& e) { pairs(e, "c08.pairs.trim.n2s2k3", 2, dom::Sigma2(), 3, 6, true); });
static Register p4("c08.pairs.trim.n3s3pk3", "C08", "all ordered pairs of TRIMMED automata of TA(3,{a:0,f:1,g:2},<=3): Union, UnionDisjointStates, Intersection in both BDD encodings", [](Env& e) { pairs(e, "c08.pairs.trim.n3s3pk3", 3, dom::Sigma3p(), 3, 6, true); });
static Register p10("c08.pairs.trim.n3abfk3", "C08", "all ordered pairs of TRIMMED automata of TA(3,{a:0,b:0,f:1},<=3 per side) (word-like)", [](Env& e) { pairs(e, "c08.pairs.trim.n3abfk3", 3, dom::SigmaABF(), 3, 6, true); });
static Register s5("c08.single.n4abfk4", "C08", "every automaton of TA(4,{a:0,b:0,f:1},<=4)", [](Env& e) { single(e, "c08.single.n4abfk4", 4, dom::SigmaABF(), 4); });
static Register p5("c08.pairs.trim.n3s3pk4", "C08", "all ordered pairs of TRIMMED automata of TA(3,{a:0,f:1,g:2},<=4) with <=7 rules in total", [](Env& e) { pairs(e, "c08.pairs.trim.n3s3pk4", 3, dom::Sigma3p(), 4, 7, true); });
}  // namespace c08

// ------------------------------------------------------------------------------------------------------------------
// E-HIST: sequences of load / copy / assign / union / intersection / trimming over automata that share transition tables
namespace c08h {
using namespace c08;

static const dom::Alphabet& SIG() { static dom::Alphabet s = dom::Sigma2(); return s; }
// four fixed operands: M0, M1 use states 0..1 (overlapping), M2, M3 use states 10..11 (overlapping each other, disjoint from M0/M1)
static const size_t SETFINAL_STATE[4] = {0, 10, 1, 11};
static ref::TA fixedAut(int m) { ref::TA A; size_t b = (m == 2 || m == 3) ? 10 : 0;
  switch (m) { case 0: A.rules.insert({0, {}, b}); A.rules.insert({2, {b, b}, b + 1}); A.finals.insert(b + 1); break;
               case 1: A.rules.insert({1, {}, b}); A.rules.insert({2, {b, b}, b}); A.finals.insert(b); break;
               case 2: A.rules.insert({0, {}, b}); A.rules.insert({2, {b, b}, b + 1}); A.rules.insert({1, {}, b + 1}); A.finals.insert(b + 1); break;
               case 4: A.rules.insert({0, {}, 0}); A.rules.insert({0, {}, 1}); A.rules.insert({2, {0, 1}, 1}); break;   // M4: nondeterministic, NO final state (states 0..1): copies get different final states by SetStateFinal
               default: A.rules.insert({1, {}, b}); A.rules.insert({2, {b, b}, b}); A.rules.insert({2, {b, b + 1}, b}); A.rules.insert({0, {}, b + 1}); A.finals.insert(b); }
  return A; }
template <class Aut> static void loadFixed(Aut& x, int m) { ref::TA A = fixedAut(m); AutBase::StateDict sd; for (auto q : A.states()) sd.insert(std::make_pair("q" + std::to_string(q), q)); size_t fresh = 1000;
  AutBase::StringToStateTranslWeak tr(sd, [&fresh](const std::string&) { return fresh++; }); VATA::Parsing::TimbukParser par; x.LoadFromString(par, dom::timbuk(A, SIG()), tr); }
// model of a real automaton with the real state numbers (dump without dictionary prints the numbers)
template <class Aut> static ref::TA numModel(const Aut& x) { VATA::Parsing::TimbukParser par; VATA::Util::AutDescription d = par.ParseString(bddg::dumpText(x)); std::map<std::string, int> sy; for (size_t i = 0; i < SIG().names.size(); i++) sy[SIG().names[i]] = (int)i;
  ref::TA A; for (auto& f : d.finalStates) A.finals.insert(std::stoul(f)); for (auto& t : d.transitions) { ref::Rule r; r.sym = sy.count(t.second) ? sy[t.second] : 99; for (auto& ch : t.first) r.ch.push_back(std::stoul(ch)); r.par = std::stoul(t.third); A.rules.insert(r); } return A; }

template <class T> static std::string vs(const T& v) { std::string s = "["; for (auto& x : v) s += std::to_string(x) + ","; return s + "]"; }
static std::string tableKey(const BDDBottomUpTreeAut& x, std::map<const void*, int>& ids) { const BDDBUTreeAutCore& c = *x.core_; const void* tp = c.transTable_.table_.get(); bool first = !ids.count(tp); if (first) { int n = (int)ids.size(); ids[tp] = n; }
  std::string k = "T" + std::to_string(ids[tp]) + "N{"; { std::vector<std::string> ps; for (auto& p : c.transTable_.nullaryMtbdd_.GetPaths()) ps.push_back(p.first.ToString() + ">" + vs(p.second)); std::sort(ps.begin(), ps.end()); for (auto& p : ps) k += p + ";"; } k += "}";
  if (first) { std::vector<std::string> es; for (auto& kv : c.transTable_.table_->GetTupleMap()) { std::string e = vs(kv.first) + ":"; std::vector<std::string> ps; for (auto& p : kv.second.GetPaths()) ps.push_back(p.first.ToString() + ">" + vs(p.second)); std::sort(ps.begin(), ps.end()); for (auto& p : ps) e += p + ";"; es.push_back(e); } std::sort(es.begin(), es.end()); k += "C{"; for (auto& e : es) k += e + "|"; k += "}"; }
  return k; }
static std::string tableKey(const BDDTopDownTreeAut& x, std::map<const void*, int>& ids) { const BDDTDTreeAutCore& c = *x.core_; const void* tp = c.transTable_.get(); bool first = !ids.count(tp); if (first) { int n = (int)ids.size(); ids[tp] = n; }
  std::string k = "T" + std::to_string(ids[tp]);
  if (first) { std::vector<std::string> es; for (auto& kv : c.transTable_->GetStateMap()) { std::string e = std::to_string(kv.first) + ":"; std::vector<std::string> ps; for (auto& p : kv.second.GetPaths()) { std::string t = p.first.ToString() + ">"; for (auto& tup : p.second) t += vs(tup); ps.push_back(t); } std::sort(ps.begin(), ps.end()); for (auto& p : ps) e += p + ";"; es.push_back(e); } std::sort(es.begin(), es.end()); k += "C{"; for (auto& e : es) k += e + "|"; k += "}"; }
  return k; }
static const void* tablePtr(const BDDBottomUpTreeAut& x) { return x.core_->transTable_.table_.get(); }
static const void* tablePtr(const BDDTopDownTreeAut& x) { return x.core_->transTable_.get(); }
static void convCheck(const BDDBottomUpTreeAut& x, const ref::TA& m, Ctx& c) { BDDTopDownTreeAut t = x.GetTopDownAut(); ref::TA T = numModel(t); if (!ref::equalLang(T, m)) c.viol("bdd-bu/GetTopDownAut", "language_changed", {"in_history"}, "result " + T.str(SIG().names.data()) + " expected language of " + m.str(SIG().names.data())); }
static void convCheck(const BDDTopDownTreeAut&, const ref::TA&, Ctx&) {}

// C07 in the same world: in the reached state, every ordered pair of live handles (incl. a handle with itself, and handles that SHARE a transition table)
// is compared by the inclusion algorithms of the encoding; oracle: reference inclusion of the slots' reference values
static bool g_inclObs = false;
static InclParam mkIncl(bool down, bool rec, bool opt, bool sim) { InclParam ip; ip.SetAlgorithm(InclParam::e_algorithm::antichains); ip.SetDirection(down ? InclParam::e_direction::downward : InclParam::e_direction::upward); ip.SetUseRecursion(rec); ip.SetUseDownwardCacheImpl(opt); ip.SetUseSimulation(sim); return ip; }
static void inclObserve(const BDDBottomUpTreeAut& a, const BDDBottomUpTreeAut& b, bool expect, const std::string& who, Ctx& c) {
  struct V { const char* name; InclParam ip; } vs[] = {{"up_nosim", mkIncl(false, false, false, false)}, {"down_rec_sim", mkIncl(true, true, false, true)}};
  for (auto& v : vs) { c.count("inclusion_calls_in_history_states"); bool g; try { g = BDDBottomUpTreeAut::CheckInclusion(a, b, v.ip); } catch (std::exception& e) { c.viol(std::string("bdd-bu/CheckInclusion/") + v.name, "exception", {"in_history"}, who + " " + e.what()); continue; }
    if (g != expect) c.viol(std::string("bdd-bu/CheckInclusion/") + v.name, expect ? "says_not_included_but_is" : "says_included_but_is_not", {"in_history"}, who); } }
static void inclObserve(const BDDTopDownTreeAut& a, const BDDTopDownTreeAut& b, bool expect, const std::string& who, Ctx& c) {
  for (int opt = 0; opt < 2; opt++) { c.count("inclusion_calls_in_history_states"); bool g; InclParam ip = mkIncl(true, true, opt, false); try { g = BDDTopDownTreeAut::CheckInclusion(a, b, ip); } catch (std::exception& e) { c.viol(std::string("bdd-td/CheckInclusion/down_rec") + (opt ? "_opt" : "") + "_nosim", "exception", {"in_history"}, who + " " + e.what()); continue; }
    if (g != expect) c.viol(std::string("bdd-td/CheckInclusion/down_rec") + (opt ? "_opt" : "") + "_nosim", expect ? "says_not_included_but_is" : "says_included_but_is_not", {"in_history"}, who); } }

enum K { LOAD, LOADINTO, COPY, ASSIGN, DESTROY, UNION, UDS, ISECT, UNREACH, USELESS, TOPDOWN, SETFINAL, ADDTRANS };
struct Op { K kind; int i, j, k, m; };
static const int S = 3;
static std::vector<Op> buildMenu() { std::vector<Op> v;
  for (int i = 0; i < S; i++) { for (int m = 0; m < 4; m++) { v.push_back({LOAD, i, 0, 0, m}); v.push_back({LOADINTO, i, 0, 0, m}); } v.push_back({DESTROY, i, 0, 0, 0}); v.push_back({TOPDOWN, i, 0, 0, 0}); v.push_back({SETFINAL, i, 0, 0, 0}); v.push_back({SETFINAL, i, 0, 0, 1}); for (int m = 0; m < 4; m++) v.push_back({ADDTRANS, i, 0, 0, m}); }
  for (int i = 0; i < S; i++) for (int j = 0; j < S; j++) if (i != j) { v.push_back({COPY, i, j, 0, 0}); v.push_back({ASSIGN, i, j, 0, 0}); }
  for (K kd : {UNION, UDS, ISECT}) for (int i = 0; i < S; i++) for (int j = 0; j < S; j++) for (int k = 0; k < S; k++) v.push_back({kd, i, j, k, 0});
  for (K kd : {UNREACH, USELESS}) for (int i = 0; i < S; i++) for (int k = 0; k < S; k++) v.push_back({kd, i, 0, k, 0});
  // appended in round 4 (earlier operation numbers keep their meaning): a fifth operand without final states and SetStateFinal of the second state of each numbering
  for (int i = 0; i < S; i++) { v.push_back({LOAD, i, 0, 0, 4}); v.push_back({SETFINAL, i, 0, 0, 2}); v.push_back({SETFINAL, i, 0, 0, 3}); }
  return v; }
static const std::vector<Op>& menu() { static std::vector<Op> m = buildMenu(); return m; }
static const char* KN[] = {"load", "load-into", "copy", "assign", "destroy", "Union", "UnionDisjointStates", "Intersection", "RemoveUnreachableStates", "RemoveUselessStates", "GetTopDownAut", "SetStateFinal", "AddTransition"};
static std::string opName(int x) { const Op& o = menu()[x]; char b[96];
  switch (o.kind) { case LOAD: snprintf(b, sizeof b, "s%d=load(M%d)", o.i, o.m); break; case LOADINTO: snprintf(b, sizeof b, "s%d.LoadFromString(M%d)", o.i, o.m); break; case COPY: snprintf(b, sizeof b, "s%d=copy(s%d)", o.j, o.i); break; case ASSIGN: snprintf(b, sizeof b, "s%d = s%d", o.j, o.i); break;
    case DESTROY: snprintf(b, sizeof b, "destroy s%d", o.i); break; case TOPDOWN: snprintf(b, sizeof b, "s%d.GetTopDownAut()", o.i); break; case SETFINAL: snprintf(b, sizeof b, "s%d.SetStateFinal(%d)", o.i, (int)SETFINAL_STATE[o.m]); break; case ADDTRANS: snprintf(b, sizeof b, "s%d.AddTransition(%s)", o.i, o.m == 0 ? "b->0" : o.m == 1 ? "g(0,0)->0" : o.m == 2 ? "b->10" : "g(10,10)->10"); break; case UNION: case UDS: case ISECT: snprintf(b, sizeof b, "s%d=%s(s%d,s%d)", o.k, KN[o.kind], o.i, o.j); break; default: snprintf(b, sizeof b, "s%d=s%d.%s()", o.k, o.i, KN[o.kind]); }
  return b; }
static std::string describe(const std::vector<int>& h) { std::string s; for (size_t i = 0; i < h.size(); i++) s += (i ? "; " : "") + opName(h[i]); return s + "   [M0: a->0 g(0,0)->1 F{1}; M1: b->0 g(0,0)->0 F{0}; M2: a->10 g(10,10)->11 b->11 F{11}; M3: b->10 g(10,10)->10 g(10,11)->10 a->11 F{10}; M4: a->0 a->1 g(0,1)->1 F{}]"; }

template <class Aut> struct Slot { std::unique_ptr<Aut> a; ref::TA m; };
template <class Aut> static std::string keyOf(Slot<Aut>* s) { std::string k; std::map<const void*, int> ids; for (int i = 0; i < S; i++) { if (!s[i].a) { k += "dead||"; continue; } std::set<size_t> fin(s[i].a->GetFinalStates().begin(), s[i].a->GetFinalStates().end()); k += "F" + vs(fin) + tableKey(*s[i].a, ids) + "||"; } return k; }

template <class Aut> static hist::StepResult run(const std::vector<int>& h, Ctx& c, bool verbose) {
  // the symbolic alphabet is process-wide and assigns codes on first use: register a, b, g in a fixed order once, so that keys do not depend on what ran before
  static bool registered = [] { ref::TA all; all.rules.insert({0, {}, 0}); all.rules.insert({1, {}, 0}); all.rules.insert({2, {0, 0}, 0}); Aut x = bddg::load<Aut>(all, SIG()); return true; }(); (void)registered;
  hist::StepResult R; Slot<Aut> s[S]; std::string enc = Enc<Aut>::name(); auto N = SIG().names.data();
  for (size_t n = 0; n < h.size(); n++) { bool last = n + 1 == h.size(); if (last) R.prefixKey = keyOf(s);
    const Op& o = menu()[h[n]]; bool en = true, big = false; Slot<Aut>&si = s[o.i], &sj = s[o.j], &sk = s[o.k];
    auto store = [&](Slot<Aut>& dst, Aut&& res) { ref::TA v = numModel(res); if (v.states().size() > 8 || v.rules.size() > 14) { big = true; return v; } if (dst.a) *dst.a = res; else dst.a.reset(new Aut(res)); dst.m = v; return v; };
    // the comparison with the reference is evaluated only for results inside the explored world (a result beyond 8 states / 14 rules sets `big`; the reference
    // inclusion is limited to 62 macro-state bits and must not even be asked about such a result: its "too many states" exception was once reported as a library exception)
#define sem(cond, cls, d) do { if (last && !big) { if (!(cond)) c.viol(enc + "/" + KN[o.kind], cls, {"in_history"}, d); } } while (0)
    try { switch (o.kind) {
      case LOAD: si.a.reset(new Aut()); loadFixed(*si.a, o.m); si.m = fixedAut(o.m); { ref::TA v = numModel(*si.a); sem(ref::equalLang(v, si.m), "loaded_language_wrong", "dump " + v.str(N)); } break;
      case LOADINTO: if (!si.a) { en = false; break; } { ref::TA e = ref::plainUnion(si.m, fixedAut(o.m)); if (e.states().size() > 8) { en = false; break; } loadFixed(*si.a, o.m); ref::TA v = numModel(*si.a); si.m = e; sem(ref::equalLang(v, e), "loaded_language_wrong", "automaton reads " + v.str(N) + " expected language of " + e.str(N)); } break;
      case COPY: if (!si.a || sj.a) { en = false; break; } sj.a.reset(new Aut(*si.a)); sj.m = si.m; break;
      case ASSIGN: if (!si.a || !sj.a) { en = false; break; } *sj.a = *si.a; sj.m = si.m; break;
      case DESTROY: if (!si.a) { en = false; break; } si.a.reset(); si.m = ref::TA(); break;
      case TOPDOWN: if (!si.a || std::is_same<Aut, BDDTopDownTreeAut>::value) { en = false; break; } if (last) convCheck(*si.a, si.m, c); break;
      case ADDTRANS: if (!si.a) { en = false; break; } { size_t q = o.m >= 2 ? 10 : 0; if (!si.m.states().count(q)) { en = false; break; } bool bin = o.m & 1; auto tr = si.a->GetAlphabet()->GetSymbolTransl();
          typename Aut::SymbolType sy = (*tr)(bin ? "g" : "b"); typename Aut::StateTuple ch; if (bin) { ch.push_back(q); ch.push_back(q); } si.a->AddTransition(ch, sy, q); ref::Rule r; r.sym = bin ? 2 : 1; r.ch = std::vector<size_t>(ch.begin(), ch.end()); r.par = q; si.m.rules.insert(r); } break;
      case SETFINAL: if (!si.a) { en = false; break; } { size_t q = SETFINAL_STATE[o.m]; if (!si.m.states().count(q)) { en = false; break; } si.a->SetStateFinal(q); si.m.finals.insert(q); } break;
      case UNION: if (!si.a || !sj.a) { en = false; break; } { ref::TA a = si.m, b = sj.m; ref::TA v = store(sk, Aut::Union(*si.a, *sj.a)); sem(ref::equalLang(v, ref::disjointUnion(a, b)), "language_not_the_union", "result " + v.str(N)); } break;
      case UDS: if (!si.a || !sj.a) { en = false; break; } { ref::TA a = si.m, b = sj.m; bool disj = true; for (auto q : a.states()) if (b.states().count(q)) disj = false; if (!disj) { en = false; break; } ref::TA v = store(sk, Aut::UnionDisjointStates(*si.a, *sj.a)); sem(ref::equalLang(v, ref::plainUnion(a, b)), "language_not_the_union", "result " + v.str(N)); } break;
      case ISECT: if (!si.a || !sj.a) { en = false; break; } { ref::TA a = si.m, b = sj.m; ref::TA pr = ref::product(a, b); { auto u = ref::useful(pr); ref::TA t; for (auto& r : pr.rules) if (ref::usefulRule(r, u)) t.rules.insert(r); for (auto f : pr.finals) if (u.count(f)) t.finals.insert(f); pr = t; }   // the reference product, trimmed (same language): two 8-state operands give 64 product states, beyond the 62 the reference inclusion can index
        if (pr.states().size() > 40) { en = false; break; }   // outside the explored world
        ref::TA v = store(sk, Aut::Intersection(*si.a, *sj.a)); sem(ref::equalLang(v, pr), "language_not_the_intersection", "result " + v.str(N)); } break;
      case UNREACH: if (!si.a) { en = false; break; } { ref::TA a = si.m; ref::TA v = store(sk, si.a->RemoveUnreachableStates()); sem(ref::equalLang(v, a), "language_changed", "result " + v.str(N)); } break;
      case USELESS: if (!si.a) { en = false; break; } { ref::TA a = si.m; ref::TA v = store(sk, si.a->RemoveUselessStates()); sem(ref::equalLang(v, a), "language_changed", "result " + v.str(N)); auto u = ref::useful(v); bool left = false; for (auto q : v.states()) if (!u.count(q)) left = true; sem(!left, "useless_state_left", "result " + v.str(N)); } break;
    } } catch (std::exception& e) { if (last) c.viol(enc + "/" + KN[o.kind], "exception", {"in_history"}, e.what()); }
    if (!en || big) { R.enabled = false; return R; }
    if (last || verbose) for (int i = 0; i < S; i++) if (s[i].a) { ref::TA got = numModel(*s[i].a);
      // the model of a slot is the language-defining value it had when it was created; only its LANGUAGE must be preserved (junk rules over
      // unreachable states left in a shared table are not observable in the language)
      if (!ref::equalLang(got, s[i].m)) c.viol(enc + "/value semantics", i == o.i || i == o.j || i == o.k ? "language_of_a_handle_involved_in_the_step_is_wrong" : "language_of_an_uninvolved_automaton_changed", {std::string("after_") + KN[o.kind]}, "s" + std::to_string(i) + " reads " + got.str(N) + " expected the language of " + s[i].m.str(N)); }
  }
  if (g_inclObs && !h.empty()) for (int i = 0; i < S; i++) for (int j = 0; j < S; j++) if (s[i].a && s[j].a) { bool expect = ref::included(s[i].m, s[j].m); c.count(expect ? "history_pairs_included" : "history_pairs_not_included"); if (i != j && tablePtr(*s[i].a) == tablePtr(*s[j].a)) c.count("history_pairs_sharing_a_table");
      inclObserve(*s[i].a, *s[j].a, expect, "s" + std::to_string(i) + " <= s" + std::to_string(j) + "  with s" + std::to_string(i) + " = " + s[i].m.str(N) + " and s" + std::to_string(j) + " = " + s[j].m.str(N), c);
      ref::TA gi = numModel(*s[i].a), gj = numModel(*s[j].a); if (!ref::equalLang(gi, s[i].m) || !ref::equalLang(gj, s[j].m)) c.viol(enc + "/CheckInclusion", "operand_language_changed", {"in_history"}, "after s" + std::to_string(i) + " <= s" + std::to_string(j)); }
  R.key = keyOf(s); if (h.empty()) R.prefixKey = ""; { std::set<const void*> seen; for (int i = 0; i < S; i++) if (s[i].a && !seen.insert(tablePtr(*s[i].a)).second) R.sharing = true; }
  return R;
}
#undef sem
static int findOp(K kind, int i, int j, int k, int m) { for (size_t x = 0; x < menu().size(); x++) { const Op& o = menu()[x]; if (o.kind == kind && o.i == i && o.j == j && o.k == k && o.m == m) return (int)x; } abort(); }
// `seeded`: start the search from a non-initial state in which two handles share one transition table
//   1: s0=load(M0); s1=copy(s0)      2: s0=load(M3); s1=copy(s0); s2=load(M1)
template <class Aut> static void body(Env& env, const std::string& stage, int depth, uint64_t budget, int seeded = 0, bool inclObs = false) {
  g_inclObs = inclObs; hist::Spec sp; sp.stage = stage; sp.menuSize = (int)menu().size(); sp.maxDepth = depth; sp.stateBudget = budget; sp.caseTimeout = 60; bool verbose = !env.replayArg.empty();
  std::vector<int> prefix; if (seeded == 1) prefix = {findOp(LOAD, 0, 0, 0, 0), findOp(COPY, 0, 1, 0, 0)}; if (seeded == 2) prefix = {findOp(LOAD, 0, 0, 0, 3), findOp(COPY, 0, 1, 0, 0), findOp(LOAD, 2, 0, 0, 1)}; if (seeded == 3) prefix = {findOp(LOAD, 0, 0, 0, 4), findOp(COPY, 0, 1, 0, 0)};
  sp.run = [verbose, prefix](const std::vector<int>& h, Ctx& c) { std::vector<int> full = prefix; full.insert(full.end(), h.begin(), h.end()); hist::StepResult r = run<Aut>(full, c, verbose); if (h.empty()) r.prefixKey = ""; return r; };
  sp.describe = [prefix](const std::vector<int>& h) { std::vector<int> full = prefix; full.insert(full.end(), h.begin(), h.end()); return (prefix.empty() ? "" : "[from the seeded state] ") + describe(full); };
  hist::bfs(env, sp);
}
static Register h1("c08.hist.bu.d3", "C08", "bdd-bu, 3 slots, BFS depth 3 over load(4 fixed automata)/load-into/copy/assign/destroy/Union/UnionDisjointStates/Intersection/trimming/GetTopDownAut", [](Env& e) { body<BDDBottomUpTreeAut>(e, "c08.hist.bu.d3", 3, 2000000); });
static Register h2("c08.hist.bu.d4", "C08", "bdd-bu, BFS depth 4", [](Env& e) { body<BDDBottomUpTreeAut>(e, "c08.hist.bu.d4", 4, 2000000); });
static Register h3("c08.hist.bu.d5", "C08", "bdd-bu, BFS depth 5", [](Env& e) { body<BDDBottomUpTreeAut>(e, "c08.hist.bu.d5", 5, 3000000); });
static Register h4("c08.hist.td.d3", "C08", "bdd-td, 3 slots, BFS depth 3", [](Env& e) { body<BDDTopDownTreeAut>(e, "c08.hist.td.d3", 3, 2000000); });
static Register h5("c08.hist.td.d4", "C08", "bdd-td, BFS depth 4", [](Env& e) { body<BDDTopDownTreeAut>(e, "c08.hist.td.d4", 4, 2000000); });
static Register h6("c08.hist.td.d5", "C08", "bdd-td, BFS depth 5", [](Env& e) { body<BDDTopDownTreeAut>(e, "c08.hist.td.d5", 5, 3000000); });
static Register h7("c08.hist.bu.seeded1.d3", "C08", "bdd-bu, BFS depth 3 from the non-initial state s0=load(M0); s1=copy(s0) (two handles sharing one table)", [](Env& e) { body<BDDBottomUpTreeAut>(e, "c08.hist.bu.seeded1.d3", 3, 3000000, 1); });
static Register h8("c08.hist.bu.seeded2.d3", "C08", "bdd-bu, BFS depth 3 from the non-initial state s0=load(M3); s1=copy(s0); s2=load(M1)", [](Env& e) { body<BDDBottomUpTreeAut>(e, "c08.hist.bu.seeded2.d3", 3, 3000000, 2); });
static Register h9("c08.hist.td.seeded1.d3", "C08", "bdd-td, BFS depth 3 from s0=load(M0); s1=copy(s0)", [](Env& e) { body<BDDTopDownTreeAut>(e, "c08.hist.td.seeded1.d3", 3, 3000000, 1); });
static Register h10("c08.hist.td.seeded2.d3", "C08", "bdd-td, BFS depth 3 from s0=load(M3); s1=copy(s0); s2=load(M1)", [](Env& e) { body<BDDTopDownTreeAut>(e, "c08.hist.td.seeded2.d3", 3, 3000000, 2); });
static Register h15("c08.hist.bu.seeded3.d3", "C08", "bdd-bu, BFS depth 3 from s0=load(M4); s1=copy(s0) (nondeterministic operand without final states: the copies get different final states)", [](Env& e) { body<BDDBottomUpTreeAut>(e, "c08.hist.bu.seeded3.d3", 3, 3000000, 3); });
static Register h16("c08.hist.td.seeded3.d3", "C08", "bdd-td, BFS depth 3 from s0=load(M4); s1=copy(s0)", [](Env& e) { body<BDDTopDownTreeAut>(e, "c08.hist.td.seeded3.d3", 3, 3000000, 3); });
static Register h17("c08.hist.bu.seeded3.d4", "C08", "bdd-bu, BFS depth 4 from s0=load(M4); s1=copy(s0)", [](Env& e) { body<BDDBottomUpTreeAut>(e, "c08.hist.bu.seeded3.d4", 4, 4000000, 3); });
static Register h18("c08.hist.td.seeded3.d4", "C08", "bdd-td, BFS depth 4 from s0=load(M4); s1=copy(s0)", [](Env& e) { body<BDDTopDownTreeAut>(e, "c08.hist.td.seeded3.d4", 4, 4000000, 3); });
static Register h11("c08.hist.bu.seeded1.d4", "C08", "bdd-bu, BFS depth 4 from s0=load(M0); s1=copy(s0)", [](Env& e) { body<BDDBottomUpTreeAut>(e, "c08.hist.bu.seeded1.d4", 4, 4000000, 1); });
static Register h12("c08.hist.bu.seeded2.d4", "C08", "bdd-bu, BFS depth 4 from s0=load(M3); s1=copy(s0); s2=load(M1)", [](Env& e) { body<BDDBottomUpTreeAut>(e, "c08.hist.bu.seeded2.d4", 4, 4000000, 2); });
static Register h13("c08.hist.td.seeded1.d4", "C08", "bdd-td, BFS depth 4 from s0=load(M0); s1=copy(s0)", [](Env& e) { body<BDDTopDownTreeAut>(e, "c08.hist.td.seeded1.d4", 4, 4000000, 1); });
static Register h14("c08.hist.td.seeded2.d4", "C08", "bdd-td, BFS depth 4 from s0=load(M3); s1=copy(s0); s2=load(M1)", [](Env& e) { body<BDDTopDownTreeAut>(e, "c08.hist.td.seeded2.d4", 4, 4000000, 2); });
static Register i1("c07.hist.bu.d3", "C07", "bdd-bu history world (load/copy/assign/Union/Intersection/trimming/SetStateFinal/AddTransition, 3 slots), BFS depth 3: in every state every ordered pair of live handles, incl. handles sharing a table, through up_nosim and down_rec_sim", [](Env& e) { body<BDDBottomUpTreeAut>(e, "c07.hist.bu.d3", 3, 3000000, 0, true); });
static Register i2("c07.hist.td.d3", "C07", "bdd-td history world, BFS depth 3: every ordered pair of live handles through down_rec with/without implication cache", [](Env& e) { body<BDDTopDownTreeAut>(e, "c07.hist.td.d3", 3, 3000000, 0, true); });
static Register i3("c07.hist.bu.seeded1.d3", "C07", "bdd-bu history world, BFS depth 3 from s0=load(M0); s1=copy(s0)", [](Env& e) { body<BDDBottomUpTreeAut>(e, "c07.hist.bu.seeded1.d3", 3, 3000000, 1, true); });
static Register i4("c07.hist.td.seeded1.d3", "C07", "bdd-td history world, BFS depth 3 from s0=load(M0); s1=copy(s0)", [](Env& e) { body<BDDTopDownTreeAut>(e, "c07.hist.td.seeded1.d3", 3, 3000000, 1, true); });
static Register i5("c07.hist.bu.d4", "C07", "bdd-bu history world, BFS depth 4 with inclusion of every pair of handles in every state", [](Env& e) { body<BDDBottomUpTreeAut>(e, "c07.hist.bu.d4", 4, 3000000, 0, true); });
static Register i6("c07.hist.td.d4", "C07", "bdd-td history world, BFS depth 4 with inclusion of every pair of handles in every state", [](Env& e) { body<BDDTopDownTreeAut>(e, "c07.hist.td.d4", 4, 3000000, 0, true); });
static Register i7("c07.hist.bu.seeded2.d3", "C07", "bdd-bu history world, BFS depth 3 from s0=load(M3); s1=copy(s0); s2=load(M1)", [](Env& e) { body<BDDBottomUpTreeAut>(e, "c07.hist.bu.seeded2.d3", 3, 3000000, 2, true); });
}  // namespace c08h
