// C09 — NFA inclusion: antichains, congruence depth-first / breadth-first, vs reference subset construction.
#include "runner.hh"
#include "ref_nfa.hh"
#include <vata/incl_param.hh>
#include <memory>

using namespace verif; using namespace VATA;

namespace c09 {

struct Alg { const char* name; bool congr, breadth; };
static const Alg ALGS[3] = {{"antichains", false, false}, {"congr_depth", true, false}, {"congr_breadth", true, true}};

static int call(const ExplicitFiniteAut& a0, const ExplicitFiniteAut& b0, const Alg& g, bool prepared, std::string* what) {
  try {
    InclParam ip; ip.SetAlgorithm(g.congr ? InclParam::e_algorithm::congruences : InclParam::e_algorithm::antichains);
    ip.SetSearchOrder(g.breadth ? InclParam::e_search_order::breadth : InclParam::e_search_order::depth); ip.SetUseSimulation(false);
    if (!prepared) return ExplicitFiniteAut::CheckInclusion(a0, b0, ip) ? 1 : 0;
    ExplicitFiniteAut a(a0), b(b0); AutBase::SanitizeAutsForInclusion(a, b);   // as cli/operations.hh does
    return ExplicitFiniteAut::CheckInclusion(a, b, ip) ? 1 : 0;
  } catch (std::exception& e) { if (what) *what = e.what(); return 2; } catch (...) { return 3; }
}

static void body(Env& env, const std::string& stage, int n, int L, int perSide, int totalMax, bool trimmedOnly = false) {
  auto D = std::make_shared<ref::FADomain>(n, L, perSide); if (trimmedOnly) D->keepTrimmedOnly();
  // pair index with total bound: items are sorted by #edges
  auto upTo = std::make_shared<std::vector<uint64_t>>(perSide + 1, 0); for (size_t i = 0; i < D->size(); i++) for (int k = D->numEdges(i); k <= perSide; k++) (*upTo)[k]++;
  auto off = std::make_shared<std::vector<uint64_t>>(D->size()); uint64_t total = 0; for (size_t i = 0; i < D->size(); i++) { int rest = totalMax - D->numEdges(i); (*off)[i] = total; total += rest < 0 ? 0 : (*upTo)[std::min(rest, perSide)]; }
  env.noteNum(stage + ".automata", D->size());
  auto getPair = [off](uint64_t idx) { size_t i = std::upper_bound(off->begin(), off->end(), idx) - off->begin() - 1; return std::make_pair(i, (size_t)(idx - (*off)[i])); };
  ParallelOpts o; o.stage = stage; o.size = total; o.block = 512;
  o.describe = [D, getPair](uint64_t idx) { auto ij = getPair(idx); return "A: " + D->get(ij.first).str() + " | B: " + D->get(ij.second).str(); };
  o.run = [D, getPair, L](uint64_t idx, Ctx& c) {
    auto ij = getPair(idx); ref::NFA A = D->get(ij.first), B = D->get(ij.second);
    bool expect = ref::included(A, B); bool eA = ref::emptyLang(A), eB = ref::emptyLang(B);
    c.evals(); uint64_t w = A.edges.size() + B.edges.size();
    if (!eA && !eB && A != B) c.nontrivial();
    c.count(expect ? "expect_included" : "expect_not_included"); if (!eA && expect) c.count("nonemptyA_included");
    if (A.starts.size() > 1 || B.starts.size() > 1) c.count("class_several_start_states");
    if (ref::acceptsEps(A)) c.count("class_A_accepts_empty_word");
    { auto sa = A.symbols(), sb = B.symbols(); for (int s : sa) if (!sb.count(s)) { c.count("class_symbol_only_in_A"); break; } }
    { auto fr = ref::fwdReach(A), br = ref::bwdReach(A); for (auto q : A.states()) if (!fr.count(q) || !br.count(q)) { c.count("class_unreachable_or_dead_state"); break; } }
    if (c.wantSample() && !eA && !eB && A != B && w >= 3) c.sample("A: " + A.str() + " | B: " + B.str() + " | included=" + (expect ? "1" : "0"));
    ExplicitFiniteAut a = ref::buildFA(A), b = ref::buildFA(B);
    for (auto& g : ALGS) for (int prepared = 0; prepared < 2; prepared++) {
      std::string what; int got = call(a, b, g, prepared, &what); c.count("calls"); verif::obs((uint64_t)got + 29);
      if (got == (expect ? 1 : 0)) continue;
      std::string cls = got >= 2 ? "exception" : got == 1 ? "says_included_but_is_not" : "says_not_included_but_is";
      std::vector<std::string> feats; if (A.starts.size() > 1) feats.push_back("A_several_start_states"); if (B.starts.size() > 1) feats.push_back("B_several_start_states");
      c.viol(std::string("CheckInclusion/") + g.name + (prepared ? "/prepared" : "/raw"), cls, feats,
             "A: " + A.str() + " | B: " + B.str() + " | alg=" + g.name + (prepared ? " prepared" : " raw") + " expected=" + (expect ? "1" : "0") + " got=" + std::to_string(got) + (what.empty() ? "" : " what=" + what) +
             "\n--- A (timbuk)\n" + ref::timbukFA(A, L, "A") + "--- B (timbuk)\n" + ref::timbukFA(B, L, "B"), w);
    }
    // huge sparse state numbers: A shifted by 1000003, B by 2^40 (verdicts are invariant under renaming)
    { ExplicitFiniteAut aH = ref::buildFA(ref::shift(A, 1000003)), bH = ref::buildFA(ref::shift(B, (size_t)1 << 40)); c.count("class_huge_state_numbers");
      for (auto& g : ALGS) for (int prepared = 0; prepared < 2; prepared++) { std::string what; int got = call(aH, bH, g, prepared, &what); c.count("calls"); if (got == (expect ? 1 : 0)) continue;
        c.viol(std::string("CheckInclusion/") + g.name + (prepared ? "/prepared" : "/raw"), got >= 2 ? "exception" : got == 1 ? "says_included_but_is_not" : "says_not_included_but_is", {"huge_sparse_state_numbers"}, "A (shifted by 1000003): " + A.str() + " | B (shifted by 2^40): " + B.str() + " | alg=" + g.name + " expected=" + (expect ? "1" : "0") + " got=" + std::to_string(got) + " " + what, w); } }
    if (ref::readBackFA(a) != A || ref::readBackFA(b) != B) c.viol("CheckInclusion", "operand_changed", {}, "A: " + A.str() + " | B: " + B.str(), w);
  };
  env.parallel(o);
}

#define REG(var, name, n, L, k, tot, txt) static Register var(name, "C09", txt, [](Env& e) { body(e, name, n, L, k, tot); });
REG(r1, "c09.n2l1", 2, 1, 4, 8, "all ordered pairs of FA(2 states,{a},any edges/start/final) x 3 algorithms x raw/prepared")
REG(r2, "c09.n2l2k3", 2, 2, 3, 6, "all ordered pairs of FA(2,{a,b},<=3 edges per side) x 3 algorithms x raw/prepared")
REG(r3, "c09.n2l2all", 2, 2, 8, 16, "all 16.8M ordered pairs of FA(2,{a,b},any) x 3 algorithms x raw/prepared")
REG(r4, "c09.n3l1k4", 3, 1, 4, 8, "all ordered pairs of FA(3,{a},<=4 edges per side)")
REG(r5, "c09.n3l2t4", 3, 2, 4, 4, "ordered pairs of FA(3,{a,b}) with total <=4 edges")

REG(r6, "c09.n3l1k3", 3, 1, 3, 6, "all ordered pairs of FA(3,{a},<=3 edges per side)")
REG(r7, "c09.n3l2t3", 3, 2, 3, 3, "ordered pairs of FA(3,{a,b}) with total <=3 edges")
static Register t4("c09.trim.n3l1k4", "C09", "all ordered pairs of TRIMMED NFAs of FA(3,{a},<=4 edges)", [](Env& e) { body(e, "c09.trim.n3l1k4", 3, 1, 4, 8, true); });
static Register t5("c09.trim.n3l2k3t5", "C09", "ordered pairs of TRIMMED NFAs of FA(3,{a,b},<=3 edges) with <=5 edges in total", [](Env& e) { body(e, "c09.trim.n3l2k3t5", 3, 2, 3, 5, true); });
static Register t1("c09.trim.n3l2k3", "C09", "all ordered pairs of TRIMMED NFAs of FA(3,{a,b},<=3 edges) x 3 algorithms x raw/prepared", [](Env& e) { body(e, "c09.trim.n3l2k3", 3, 2, 3, 6, true); });
static Register t2("c09.trim.n3l2k4t7", "C09", "ordered pairs of TRIMMED NFAs of FA(3,{a,b},<=4 edges) with <=7 edges in total", [](Env& e) { body(e, "c09.trim.n3l2k4t7", 3, 2, 4, 7, true); });
static Register t3("c09.trim.n3l1k5", "C09", "all ordered pairs of TRIMMED NFAs of FA(3,{a},<=5 edges)", [](Env& e) { body(e, "c09.trim.n3l1k5", 3, 1, 5, 10, true); });
}  // namespace c09
