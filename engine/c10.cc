// C10 — NFA union / intersection / reverse / trimming / witness vs the reference model.
#include "runner.hh"
#include "ref_nfa.hh"
#include <vata/parsing/timbuk_parser.hh>
#include <vata/serialization/timbuk_serializer.hh>
#include <memory>

using namespace verif; using namespace VATA;

namespace c10 {

// second view of a result: what a user sees through DumpToString, re-loaded and read as a language model
static bool reloadView(const ExplicitFiniteAut& x, ref::NFA& out, std::string& err) {
  try {
    VATA::Serialization::TimbukSerializer ser; VATA::Parsing::TimbukParser par;
    std::string txt = x.DumpToString(ser);
    ExplicitFiniteAut y; AutBase::StateDict sd; y.LoadFromString(par, txt, sd);
    out = ref::readBackFA(y); return true;
  } catch (std::exception& e) { err = e.what(); return false; }
}

static void single(Env& env, const std::string& stage, int n, int L, int k) {
  auto D = std::make_shared<ref::FADomain>(n, L, k);
  env.noteNum(stage + ".automata", D->size());
  ParallelOpts o; o.stage = stage; o.size = D->size(); o.block = 256;
  o.describe = [D](uint64_t i) { return D->get(i).str(); };
  o.run = [D, L](uint64_t idx, Ctx& c) {
    ref::NFA A = D->get(idx); c.evals(); uint64_t w = A.edges.size(); bool empty = ref::emptyLang(A);
    if (!empty && A.edges.size() >= 1) c.nontrivial();
    c.count(empty ? "lang_empty" : "lang_nonempty"); if (ref::acceptsEps(A)) c.count("class_accepts_empty_word"); if (A.starts.size() > 1) c.count("class_several_start_states");
    std::vector<std::string> feats; if (ref::acceptsEps(A)) feats.push_back("accepts_empty_word"); if (A.starts.size() > 1) feats.push_back("several_start_states");
    if (c.wantSample() && !empty && A.edges.size() >= 3) c.sample(A.str());
    auto det = [&](const std::string& x) { return A.str() + " | " + x + "\n--- A (timbuk)\n" + ref::timbukFA(A, L, "A"); };
    auto langCheck = [&](const char* sub, const ExplicitFiniteAut& r, const ref::NFA& expect, const char* cls) {
      ref::NFA R = ref::readBackFA(r);
      if (!ref::equalLang(R, expect)) { c.viol(sub, cls, feats, det("result: " + R.str()), w); return; }
      ref::NFA V; std::string err; if (!reloadView(r, V, err)) c.viol(sub, "result_cannot_be_dumped_and_reloaded", feats, det("result: " + R.str() + " error: " + err), w);
      else if (!ref::equalLang(V, expect)) c.viol(sub, std::string(cls) + "_in_dump", feats, det("result: " + R.str() + " dumped+reloaded: " + V.str()), w);
    };
    try {
      ExplicitFiniteAut a = ref::buildFA(A);
      { ExplicitFiniteAut r = a.Reverse(); langCheck("Reverse", r, ref::mirror(A), "language_not_the_mirror"); }
      { ExplicitFiniteAut r = a.RemoveUnreachableStates(); langCheck("RemoveUnreachableStates", r, A, "language_changed"); }
      { ExplicitFiniteAut r = a.RemoveUselessStates(); langCheck("RemoveUselessStates", r, A, "language_changed"); }
      { AutBase::StateToStateMap m; ExplicitFiniteAut r = a.RemoveUselessStates(&m); langCheck("RemoveUselessStates(map)", r, A, "language_changed"); }
      { ExplicitFiniteAut wt = a.GetCandidateTree(); ref::NFA W = ref::readBackFA(wt);
        if (!ref::included(W, A)) c.viol("GetCandidateTree", "witness_not_sublanguage", feats, det("witness: " + W.str()), w);
        if (!empty && ref::emptyLang(W)) c.viol("GetCandidateTree", "witness_empty_for_nonempty_language", feats, det("witness: " + W.str()), w);
        ref::NFA V; std::string err; if (!reloadView(wt, V, err)) c.viol("GetCandidateTree", "result_cannot_be_dumped_and_reloaded", feats, det("witness: " + W.str() + " error: " + err), w);
        else { if (!ref::included(V, A)) c.viol("GetCandidateTree", "witness_not_sublanguage_in_dump", feats, det("dumped witness: " + V.str()), w); if (!empty && ref::emptyLang(V)) c.viol("GetCandidateTree", "witness_empty_for_nonempty_language_in_dump", feats, det("dumped witness: " + V.str()), w); } }
      if (ref::readBackFA(a) != A) c.viol("single-automaton operations", "operand_changed", feats, det("now: " + ref::readBackFA(a).str()), w);
    } catch (std::exception& e) { c.viol("single-automaton operations", "exception", feats, det(e.what()), w); }
  };
  env.parallel(o);
}

static void pairs(Env& env, const std::string& stage, int n, int L, int k) {
  auto D = std::make_shared<ref::FADomain>(n, L, k); uint64_t M = D->size();
  env.noteNum(stage + ".automata", D->size());
  ParallelOpts o; o.stage = stage; o.size = M * M; o.block = 512;
  o.describe = [D, M](uint64_t i) { return "A: " + D->get(i / M).str() + " | B: " + D->get(i % M).str(); };
  o.run = [D, M, L, n](uint64_t idx, Ctx& c) {
    ref::NFA A = D->get(idx / M), B = D->get(idx % M); c.evals(); uint64_t w = A.edges.size() + B.edges.size();
    ref::NFA prod = ref::product(A, B); bool eI = ref::emptyLang(prod);
    if (!ref::emptyLang(A) && !ref::emptyLang(B) && A != B) c.nontrivial();
    c.count(eI ? "intersection_empty" : "intersection_nonempty");
    bool oneSidedStart = false; for (auto p : A.states()) for (auto q : B.states()) if (A.starts.count(p) != B.starts.count(q)) oneSidedStart = true; if (oneSidedStart) c.count("class_product_state_with_one_start_component");
    if (ref::acceptsEps(A) && ref::acceptsEps(B)) c.count("class_both_accept_empty_word");
    std::vector<std::string> feats; if (ref::acceptsEps(A) != ref::acceptsEps(B)) feats.push_back("one_side_accepts_empty_word"); if (ref::acceptsEps(A) && ref::acceptsEps(B)) feats.push_back("both_accept_empty_word");
    if (c.wantSample() && !eI && A != B && w >= 3) c.sample("A: " + A.str() + " | B: " + B.str());
    auto det = [&](const std::string& x) { return "A: " + A.str() + " | B: " + B.str() + " | " + x + "\n--- A (timbuk)\n" + ref::timbukFA(A, L, "A") + "--- B (timbuk)\n" + ref::timbukFA(B, L, "B"); };
    try {
      ExplicitFiniteAut a = ref::buildFA(A), b = ref::buildFA(B);
      { ExplicitFiniteAut r = ExplicitFiniteAut::Union(a, b); ref::NFA R = ref::readBackFA(r); if (!ref::equalLang(R, ref::disjointUnion(A, B))) c.viol("Union", "language_not_the_union", feats, det("result: " + R.str()), w); }
      { AutBase::StateToStateMap ma, mb; ExplicitFiniteAut r = ExplicitFiniteAut::Union(a, b, &ma, &mb); ref::NFA R = ref::readBackFA(r); if (!ref::equalLang(R, ref::disjointUnion(A, B))) c.viol("Union(emptymaps)", "language_not_the_union", feats, det("result: " + R.str()), w); }
      { ref::NFA B2 = ref::shift(B, n); ExplicitFiniteAut b2 = ref::buildFA(B2); ExplicitFiniteAut r = ExplicitFiniteAut::UnionDisjointStates(a, b2); ref::NFA R = ref::readBackFA(r);
        if (!ref::equalLang(R, ref::plainUnion(A, B2))) c.viol("UnionDisjointStates", "language_not_the_union", feats, det("result: " + R.str()), w);
        if (ref::readBackFA(b2) != B2) c.viol("UnionDisjointStates", "operand_changed", feats, det(""), w); }
      { ExplicitFiniteAut r = ExplicitFiniteAut::Intersection(a, b); ref::NFA R = ref::readBackFA(r);
        if (!ref::equalLang(R, prod)) { bool tooBig = !ref::included(R, prod); c.viol("Intersection", tooBig ? "accepts_word_outside_intersection" : "misses_word_of_intersection", feats, det("result: " + R.str()), w); } }
      { AutBase::ProductTranslMap pm; ExplicitFiniteAut r = ExplicitFiniteAut::Intersection(a, b, &pm); ref::NFA R = ref::readBackFA(r);
        if (!ref::equalLang(R, prod)) { bool tooBig = !ref::included(R, prod); c.viol("Intersection(map)", tooBig ? "accepts_word_outside_intersection" : "misses_word_of_intersection", feats, det("result: " + R.str()), w); } }
      if (idx / M == idx % M) { c.count("aliased_operand_cases");   // the same object as both operands
        { ExplicitFiniteAut r = ExplicitFiniteAut::Union(a, a); if (!ref::equalLang(ref::readBackFA(r), A)) c.viol("Union(aliased)", "language_not_the_union", feats, det("Union(a, a); result: " + ref::readBackFA(r).str()), w); }
        { ExplicitFiniteAut r = ExplicitFiniteAut::Intersection(a, a); if (!ref::equalLang(ref::readBackFA(r), A)) c.viol("Intersection(aliased)", "language_not_the_intersection", feats, det("Intersection(a, a); result: " + ref::readBackFA(r).str()), w); } }
      if (ref::readBackFA(a) != A || ref::readBackFA(b) != B) c.viol("pair operations", "operand_changed", feats, det(""), w);
      // the same pair built from a COMMON ANCESTOR: c = A meet B (edges, start and final states both have); a2, b2 = copies of c to which the rest is added.  The
      // operands then share whatever storage the copy-on-write discipline lets them share (the whole transition table when the edge sets coincide).
      { ref::NFA C; for (auto& e : A.edges) if (B.edges.count(e)) C.edges.insert(e); for (auto q : A.starts) if (B.starts.count(q)) C.starts.insert(q); for (auto q : A.finals) if (B.finals.count(q)) C.finals.insert(q);
        const ExplicitFiniteAut::SymbolType SX = ref::startSymbol(); ExplicitFiniteAut anc = ref::buildFA(C); ExplicitFiniteAut a2(anc), b2; b2 = anc;
        auto grow = [&](ExplicitFiniteAut& x, const ref::NFA& X) { for (auto q : X.finals) if (!C.finals.count(q)) x.SetStateFinal(q); for (auto q : X.starts) if (!C.starts.count(q)) x.SetStateStart(q, SX); for (auto& e : X.edges) if (!C.edges.count(e)) x.AddTransition(std::get<0>(e), std::get<1>(e), std::get<2>(e)); };
        grow(a2, A); grow(b2, B); c.count("common_ancestor_pairs"); if (a2.core_->transitions_.get() == b2.core_->transitions_.get()) c.count("common_ancestor_pairs_sharing_the_whole_table");
        std::vector<std::string> f2 = feats; f2.push_back("operands_derived_from_a_common_ancestor");
        if (ref::readBackFA(a2) != A || ref::readBackFA(b2) != B || ref::readBackFA(anc) != C) c.viol("copies grown from a common ancestor", "handle_reads_wrong_value", f2, det("ancestor: " + C.str()), w);
        else {
          { ExplicitFiniteAut r = ExplicitFiniteAut::Union(a2, b2); ref::NFA R = ref::readBackFA(r); if (!ref::equalLang(R, ref::disjointUnion(A, B))) c.viol("Union", "language_not_the_union", f2, det("ancestor: " + C.str() + " result: " + R.str()), w); }
          { ExplicitFiniteAut r = ExplicitFiniteAut::Intersection(a2, b2); ref::NFA R = ref::readBackFA(r); if (!ref::equalLang(R, prod)) c.viol("Intersection", !ref::included(R, prod) ? "accepts_word_outside_intersection" : "misses_word_of_intersection", f2, det("ancestor: " + C.str() + " result: " + R.str()), w); }
          { ExplicitFiniteAut r = a2.Reverse(); if (!ref::equalLang(ref::readBackFA(r), ref::mirror(A))) c.viol("Reverse", "language_not_the_mirror_image", f2, det("ancestor: " + C.str()), w); }
          { ExplicitFiniteAut r = b2.RemoveUselessStates(); if (!ref::equalLang(ref::readBackFA(r), B)) c.viol("RemoveUselessStates", "language_changed", f2, det("ancestor: " + C.str()), w); }
          if (ref::readBackFA(a2) != A || ref::readBackFA(b2) != B || ref::readBackFA(anc) != C) c.viol("pair operations", "operand_changed", f2, det("ancestor: " + C.str()), w); } }
    } catch (std::exception& e) { c.viol("pair operations", "exception", feats, det(e.what()), w); }
  };
  env.parallel(o);
}

#define REGS(var, name, n, L, k, txt) static Register var(name, "C10", txt, [](Env& e) { single(e, name, n, L, k); });
#define REGP(var, name, n, L, k, txt) static Register var(name, "C10", txt, [](Env& e) { pairs(e, name, n, L, k); });
REGS(s1, "c10.single.n3l2k3", 3, 2, 3, "every NFA of FA(3 states,{a,b},<=3 edges, any start/final sets): Reverse, trimming, witness")
REGS(s2, "c10.single.n3l2k4", 3, 2, 4, "every NFA of FA(3,{a,b},<=4 edges)")
REGS(s3, "c10.single.n3l2k5", 3, 2, 5, "every NFA of FA(3,{a,b},<=5 edges)")
REGS(s4, "c10.single.n4l1k5", 4, 1, 5, "every NFA of FA(4,{a},<=5 edges)")
REGP(p1, "c10.pairs.n2l1", 2, 1, 4, "all ordered pairs of FA(2,{a},any): Union, UnionDisjointStates, Intersection")
REGP(p2, "c10.pairs.n2l2k2", 2, 2, 2, "all ordered pairs of FA(2,{a,b},<=2 edges)")
REGP(p3, "c10.pairs.n2l2k3", 2, 2, 3, "all ordered pairs of FA(2,{a,b},<=3 edges)")
REGP(p4, "c10.pairs.n2l2k4", 2, 2, 4, "all ordered pairs of FA(2,{a,b},<=4 edges)")

}  // namespace c10
