// C11 — explicit automata are values: copies isolated, results independent of later changes of the operands,
// outcomes depend only on operand values.  E-HIST over 3 slots of ExplicitTreeAut (and a 4-slot NFA world).
#include "hist.hh"
#include "domain.hh"
#include "ref_nfa.hh"
#include "explicit_tree_aut_core.hh"
#include "loadable_aut.hh"
#include <vata/incl_param.hh>

using namespace verif; using namespace VATA;

namespace c11 {

static const int SLOTS = 3;
static const ref::Rule RULES[4] = {{0, {}, 0}, {2, {0, 0}, 0}, {2, {0, 1}, 0}, {0, {}, 1}};   // a->0, g(0,0)->0, g(0,1)->0, a->1 (collide on parent / symbol / tuple)

struct MapF : public AbstractReindexF { size_t d; AutBase::StateType operator[](const AutBase::StateType& s) override { return s + d; } AutBase::StateType at(const AutBase::StateType& s) const override { return s + d; } };
struct SymF : public ExplicitTreeAut::AbstractSymbolTranslateF { ExplicitTreeAut::SymbolType operator()(const ExplicitTreeAut::SymbolType& s) override { return s == 0 ? 1 : s; } };   // a -> b

enum Kind { NEW, COPY, COPY_NOTRANS, COPY_NOFINAL, ASSIGN, MOVE_CTOR, MOVE_ASSIGN, ADD, SETFINAL, ERASEFINAL, CLEAR, DESTROY, ATE,
            UNREACH, USELESS, REDUCE, CANDIDATE, COLLAPSE, REINDEX, REINDEX_INTO, TRANSLATE, UDS, UNION, ISECT, ISECTBU };
struct Op { Kind kind; int i, j, k, arg; };
static std::vector<Op> buildMenu() {
  std::vector<Op> m;
  for (int i = 0; i < SLOTS; i++) m.push_back({NEW, i, 0, 0, 0});
  for (Kind kd : {COPY, COPY_NOTRANS, COPY_NOFINAL, ASSIGN, MOVE_CTOR, MOVE_ASSIGN}) for (int i = 0; i < SLOTS; i++) for (int j = 0; j < SLOTS; j++) if (i != j) m.push_back({kd, i, j, 0, 0});
  for (int i = 0; i < SLOTS; i++) { m.push_back({ASSIGN, i, i, 0, 0});   // self-assignment
    for (int r = 0; r < 4; r++) m.push_back({ADD, i, 0, 0, r}); for (int q = 0; q < 2; q++) m.push_back({SETFINAL, i, 0, 0, q});
    m.push_back({ERASEFINAL, i, 0, 0, 0}); m.push_back({CLEAR, i, 0, 0, 0}); m.push_back({DESTROY, i, 0, 0, 0}); m.push_back({ATE, i, 0, 0, 0}); }
  for (Kind kd : {UNREACH, USELESS, REDUCE, CANDIDATE, COLLAPSE, REINDEX, REINDEX_INTO, TRANSLATE}) for (int i = 0; i < SLOTS; i++) for (int k = 0; k < SLOTS; k++) m.push_back({kd, i, 0, k, 0});
  for (Kind kd : {UDS, UNION, ISECT, ISECTBU}) for (int i = 0; i < SLOTS; i++) for (int j = 0; j < SLOTS; j++) for (int k = 0; k < SLOTS; k++) m.push_back({kd, i, j, k, 0});
  return m;
}
static const std::vector<Op>& menu() { static std::vector<Op> m = buildMenu(); return m; }
static const char* KN[] = {"new", "copy", "copy(noTrans)", "copy(noFinal)", "assign", "move-ctor", "move-assign", "Add", "SetStateFinal", "EraseFinalStates", "Clear", "destroy", "AreTransitionsEmpty",
  "RemoveUnreachableStates", "RemoveUselessStates", "Reduce", "GetCandidateTree", "CollapseStates{1->0}", "ReindexStates(q->q+2)", "ReindexStates(dst,q->q+4)", "TranslateSymbols(a->b)", "UnionDisjointStates", "Union", "Intersection", "IntersectionBU"};
static std::string opName(int x) { const Op& o = menu()[x]; char b[128];
  switch (o.kind) { case NEW: snprintf(b, sizeof b, "s%d=new", o.i); break; case COPY: case COPY_NOTRANS: case COPY_NOFINAL: case MOVE_CTOR: snprintf(b, sizeof b, "s%d=%s(s%d)", o.j, KN[o.kind], o.i); break;
    case ASSIGN: case MOVE_ASSIGN: snprintf(b, sizeof b, "s%d %s= s%d", o.j, o.kind == ASSIGN ? "" : "move", o.i); break;
    case ADD: { ref::TA t; t.rules.insert(RULES[o.arg]); snprintf(b, sizeof b, "s%d.Add(%s)", o.i, t.str().substr(5).c_str()); break; } case SETFINAL: snprintf(b, sizeof b, "s%d.SetStateFinal(%d)", o.i, o.arg); break;
    case ERASEFINAL: case CLEAR: case DESTROY: case ATE: snprintf(b, sizeof b, "s%d.%s", o.i, KN[o.kind]); break;
    case UDS: case UNION: case ISECT: case ISECTBU: snprintf(b, sizeof b, "s%d=%s(s%d,s%d)", o.k, KN[o.kind], o.i, o.j); break;
    case REINDEX_INTO: snprintf(b, sizeof b, "s%d.%s into s%d", o.i, KN[o.kind], o.k); break;
    default: snprintf(b, sizeof b, "s%d=s%d.%s", o.k, o.i, KN[o.kind]); }
  return b; }
static std::string describe(const std::vector<int>& h) { std::string s; for (size_t i = 0; i < h.size(); i++) s += (i ? "; " : "") + opName(h[i]); return s; }

struct Slot { std::unique_ptr<ExplicitTreeAut> a; bool moved = false; ref::TA m; bool live() const { return a && !moved; } };

static std::string keyOf(Slot* s) {
  std::string k; std::map<const void*, int> ids; auto id = [&](const void* p) { if (!ids.count(p)) { int n = (int)ids.size(); ids[p] = n; } return ids[p]; };
  for (int i = 0; i < SLOTS; i++) {
    if (!s[i].a) { k += "dead|"; continue; } if (s[i].moved) { k += "moved|"; continue; }
    const ExplicitTreeAutCore& c = *s[i].a->core_;
    k += s[i].m.str() + "#M" + std::to_string(id(c.transitions_.get())) + "u" + std::to_string(std::min<long>(c.transitions_.use_count(), 3));
    std::map<size_t, const ExplicitTreeAutCoreUtil::TransitionCluster*> cl; for (auto& kv : *c.transitions_) cl[kv.first] = kv.second.get();
    for (auto& kv : cl) { auto it = c.transitions_->find(kv.first); k += "q" + std::to_string(kv.first) + "c" + std::to_string(id(kv.second)) + "u" + std::to_string(std::min<long>(it->second.use_count(), 3));
      std::map<size_t, const void*> ts; std::map<size_t, long> uc; for (auto& sy : *kv.second) { ts[sy.first] = sy.second.get(); uc[sy.first] = sy.second.use_count(); }
      for (auto& t : ts) k += "y" + std::to_string(t.first) + "t" + std::to_string(id(t.second)) + "u" + std::to_string(std::min<long>(uc[t.first], 3)); }
    k += "|";
  }
  return k;
}
static bool anySharing(Slot* s) { std::set<const void*> seen; for (int i = 0; i < SLOTS; i++) if (s[i].live()) { const ExplicitTreeAutCore& c = *s[i].a->core_; if (!seen.insert(c.transitions_.get()).second) return true; for (auto& kv : *c.transitions_) if (!seen.insert(kv.second.get()).second) return true; } return false; }

static hist::StepResult run(const std::vector<int>& h, Ctx& c, bool verbose) {
  hist::StepResult R; Slot s[SLOTS];
  auto W = [](const ref::TA& x) { return x; };
  for (size_t n = 0; n < h.size(); n++) {
    bool last = n + 1 == h.size(); if (last) R.prefixKey = keyOf(s);
    const Op& o = menu()[h[n]]; bool en = true; Slot &si = s[o.i], &sj = s[o.j], &sk = s[o.k];
    bool big = false;   // results beyond 6 states / 10 rules are outside the explored world (keeps the space and the reference model bounded)
    auto store = [&](Slot& dst, ExplicitTreeAut&& res) { ref::TA v = dom::readBack(res); if (v.states().size() > 6 || v.rules.size() > 10) { big = true; return v; } if (dst.live()) *dst.a = res; else { dst.a.reset(new ExplicitTreeAut(res)); dst.moved = false; } dst.m = v; return v; };
    auto semantic = [&](bool ok, const char* cls, const std::string& d) { if (last && !ok) c.viol(KN[o.kind], cls, {}, d); };
#define SEM(cond, cls, d) do { if (!big && last) semantic((cond), cls, d); } while (0)
    try {
    switch (o.kind) {
      case NEW: if (si.a) { en = false; break; } si.a.reset(new ExplicitTreeAut()); si.moved = false; si.m = ref::TA(); break;
      case COPY: case COPY_NOTRANS: case COPY_NOFINAL: if (!si.live() || sj.a) { en = false; break; }
        sj.a.reset(o.kind == COPY ? new ExplicitTreeAut(*si.a) : o.kind == COPY_NOTRANS ? new ExplicitTreeAut(*si.a, false, true) : new ExplicitTreeAut(*si.a, true, false)); sj.moved = false; sj.m = si.m;
        if (o.kind == COPY_NOTRANS) sj.m.rules.clear(); if (o.kind == COPY_NOFINAL) sj.m.finals.clear(); break;
      case ASSIGN: if (!si.live() || !sj.live()) { en = false; break; } *sj.a = *si.a; sj.m = si.m; break;
      case MOVE_CTOR: if (!si.live() || sj.a) { en = false; break; } sj.a.reset(new ExplicitTreeAut(std::move(*si.a))); sj.moved = false; sj.m = si.m; si.moved = true; break;
      case MOVE_ASSIGN: if (!si.live() || !sj.live()) { en = false; break; } *sj.a = std::move(*si.a); sj.m = si.m; si.moved = true; break;
      case ADD: if (!si.live()) { en = false; break; } si.a->AddTransition(RULES[o.arg].ch, RULES[o.arg].sym, RULES[o.arg].par); si.m.rules.insert(RULES[o.arg]); break;
      case SETFINAL: if (!si.live()) { en = false; break; } si.a->SetStateFinal(o.arg); si.m.finals.insert(o.arg); break;
      case ERASEFINAL: if (!si.live()) { en = false; break; } si.a->EraseFinalStates(); si.m.finals.clear(); break;
      case CLEAR: if (!si.live()) { en = false; break; } si.a->Clear(); si.m = ref::TA(); break;
      case DESTROY: if (!si.a) { en = false; break; } si.a.reset(); si.moved = false; si.m = ref::TA(); break;
      case ATE: if (!si.live()) { en = false; break; } { bool e = si.a->AreTransitionsEmpty(); SEM(e == si.m.rules.empty(), "wrong_answer", "AreTransitionsEmpty"); } break;
      case UNREACH: if (!si.live()) { en = false; break; } { ref::TA in = si.m; ref::TA v = store(sk, si.a->RemoveUnreachableStates()); SEM(ref::equalLang(in, v), "result_language_wrong", "result " + v.str()); } break;
      case USELESS: if (!si.live()) { en = false; break; } { ref::TA in = si.m; ref::TA v = store(sk, si.a->RemoveUselessStates()); SEM(ref::equalLang(in, v), "result_language_wrong", "result " + v.str()); } break;
      case REDUCE: if (!si.live()) { en = false; break; } { ref::TA in = si.m; ref::TA v = store(sk, si.a->Reduce()); SEM(ref::equalLang(in, v), "result_language_wrong", "result " + v.str()); } break;
      case CANDIDATE: if (!si.live()) { en = false; break; } { ref::TA in = si.m; ref::TA v = store(sk, si.a->GetCandidateTree()); SEM(ref::included(v, in) && (ref::emptyLang(in) || !ref::emptyLang(v)), "result_language_wrong", "result " + v.str()); } break;
      case COLLAPSE: if (!si.live()) { en = false; break; } { ref::TA in = si.m; AutBase::StateToStateMap mp; for (auto q : in.states()) mp[q] = q == 1 ? 0 : q; ref::TA v = store(sk, si.a->CollapseStates(mp)); SEM(v == ref::mapStatesF(in, [](size_t q) { return q == 1 ? (size_t)0 : q; }), "result_not_the_image", "result " + v.str()); } break;
      case REINDEX: if (!si.live()) { en = false; break; } { ref::TA in = si.m; MapF f; f.d = 2; ref::TA v = store(sk, si.a->ReindexStates(f)); SEM(v == ref::shift(in, 2), "result_not_the_image", "result " + v.str()); } break;
      case REINDEX_INTO: if (!si.live() || !sk.live() || o.i == o.k) { en = false; break; } { ref::TA in = si.m, before = sk.m; if (ref::plainUnion(before, ref::shift(in, 4)).states().size() > 6 || before.rules.size() + in.rules.size() > 10) { en = false; break; } MapF f; f.d = 4; si.a->ReindexStates(*sk.a, f); ref::TA v = dom::readBack(*sk.a); sk.m = v; SEM(v == ref::plainUnion(before, ref::shift(in, 4)), "result_not_destination_plus_image", "destination now " + v.str()); } break;
      case TRANSLATE: if (!si.live()) { en = false; break; } { ref::TA in = si.m; SymF f; ref::TA v = store(sk, si.a->TranslateSymbols(f)); ref::TA e; e.finals = in.finals; for (auto r : in.rules) { if (r.sym == 0) r.sym = 1; e.rules.insert(r); } SEM(v == e, "result_not_the_image", "result " + v.str()); } break;
      case UDS: if (!si.live() || !sj.live()) { en = false; break; } { ref::TA a = si.m, b = sj.m; bool disj = true; for (auto q : a.states()) if (b.states().count(q)) disj = false; if (!disj) { en = false; break; }   // precondition of UnionDisjointStates
          ref::TA v = store(sk, ExplicitTreeAut::UnionDisjointStates(*si.a, *sj.a)); SEM(v == ref::plainUnion(a, b), "result_not_the_union", "result " + v.str()); } break;
      case UNION: if (!si.live() || !sj.live()) { en = false; break; } { ref::TA a = si.m, b = sj.m; ref::TA v = store(sk, ExplicitTreeAut::Union(*si.a, *sj.a)); SEM(ref::equalLang(v, ref::disjointUnion(a, b)), "result_language_wrong", "result " + v.str()); } break;
      case ISECT: case ISECTBU: if (!si.live() || !sj.live()) { en = false; break; } { ref::TA a = si.m, b = sj.m; ref::TA v = store(sk, o.kind == ISECT ? ExplicitTreeAut::Intersection(*si.a, *sj.a) : ExplicitTreeAut::IntersectionBU(*si.a, *sj.a)); SEM(ref::equalLang(v, ref::product(a, b)), "result_language_wrong", "result " + v.str()); } break;
    }
    } catch (std::exception& e) { if (last) c.viol(KN[o.kind], "exception", {}, e.what()); }
    if (!en || big) { R.enabled = false; return R; }
    if (last || verbose) {
      // (1) every live handle reads exactly its reference value (so a mutation through one handle visible through another shows at once)
      for (int i = 0; i < SLOTS; i++) if (s[i].live()) { ref::TA got = dom::readBack(*s[i].a);
        if (got != s[i].m) c.viol("value semantics", i == o.i || i == o.j || i == o.k ? "handle_involved_in_the_step_reads_wrong_value" : "uninvolved_handle_changed", {std::string("after_") + KN[o.kind]}, "s" + std::to_string(i) + " reads " + got.str() + " expected " + s[i].m.str());
        else if (dom::countRules(*s[i].a) != got.rules.size()) c.viol("value semantics", "rule_yielded_twice", {std::string("after_") + KN[o.kind]}, "s" + std::to_string(i)); }
    }
  }
  R.key = keyOf(s); if (h.empty()) R.prefixKey = ""; R.sharing = anySharing(s);
  // (3) observations that must be a function of the abstract values only
  { std::string ak, ob; for (int i = 0; i < SLOTS; i++) ak += !s[i].a ? "dead|" : s[i].moved ? "moved|" : s[i].m.str() + "|";
    for (int i = 0; i < SLOTS; i++) if (s[i].live()) { ob += s[i].a->IsLangEmpty() ? "E" : "N"; ExplicitTreeAut red = s[i].a->Reduce(); ref::TA rr = dom::readBack(red); ob += std::to_string(rr.states().size()) + "," + std::to_string(rr.rules.size()) + ";"; }
    for (int i = 0; i < SLOTS; i++) for (int j = 0; j < SLOTS; j++) if (i != j && s[i].live() && s[j].live()) { InclParam up, dn; dn.SetDirection(InclParam::e_direction::downward); dn.SetUseRecursion(true);
        bool a = ExplicitTreeAut::CheckInclusion(*s[i].a, *s[j].a, up), b = ExplicitTreeAut::CheckInclusion(*s[i].a, *s[j].a, dn); bool e = ref::included(s[i].m, s[j].m); ob += a ? "1" : "0"; ob += b ? "1" : "0";
        if (a != e || b != e) c.viol("CheckInclusion", "verdict_wrong_in_this_history", {}, "s" + std::to_string(i) + " <= s" + std::to_string(j) + " up=" + std::to_string(a) + " down=" + std::to_string(b) + " expected " + std::to_string(e)); }
    R.absKey = ak; R.obs = ob; }
  // the observations above must not have disturbed anybody
  for (int i = 0; i < SLOTS; i++) if (s[i].live() && dom::readBack(*s[i].a) != s[i].m) c.viol("value semantics", "read_only_operation_changed_a_handle", {}, "s" + std::to_string(i));
  // (4) after destroying everything the process-wide tuple cache is empty again
  for (int i = 0; i < SLOTS; i++) s[i].a.reset();
  if (!ExplicitTreeAutCore::globalTupleCache_.empty()) { c.viol("tuple cache", "entries_left_after_all_automata_destroyed", {}, std::to_string(ExplicitTreeAutCore::globalTupleCache_.store_.size()) + " tuples left"); ExplicitTreeAutCore::globalTupleCache_.store_.clear(); }
  return R;
}

static int findOp(Kind kd, int i, int j, int k, int arg) { for (size_t x = 0; x < menu().size(); x++) { const Op& o = menu()[x]; if (o.kind == kd && o.i == i && o.j == j && o.k == k && o.arg == arg) return (int)x; } throw std::runtime_error("op not in menu"); }
// `seeded`: start from a non-initial state (s0 = {a->0, g(0,0)->0, a->1; F={0}}, s1 = a copy still sharing everything with s0)
static void body(Env& env, const std::string& stage, int depth, uint64_t budget, bool seeded = false) {
  hist::Spec sp; sp.stage = stage; sp.menuSize = (int)menu().size(); sp.maxDepth = depth; sp.stateBudget = budget; bool verbose = !env.replayArg.empty();
  std::vector<int> prefix; if (seeded) prefix = {findOp(NEW, 0, 0, 0, 0), findOp(ADD, 0, 0, 0, 0), findOp(ADD, 0, 0, 0, 1), findOp(ADD, 0, 0, 0, 3), findOp(SETFINAL, 0, 0, 0, 0), findOp(COPY, 0, 1, 0, 0)};
  sp.run = [verbose, prefix](const std::vector<int>& h, Ctx& c) { std::vector<int> full = prefix; full.insert(full.end(), h.begin(), h.end()); hist::StepResult r = run(full, c, verbose); if (h.empty()) r.prefixKey = ""; return r; };
  sp.describe = [prefix](const std::vector<int>& h) { std::vector<int> full = prefix; full.insert(full.end(), h.begin(), h.end()); return (prefix.empty() ? "" : "[from the seeded state] ") + describe(full); };
  hist::bfs(env, sp);
}

// ---------------------------------------------------------------- NFA world: 4 slots, fixed state ranges per operand slot
namespace fa {
static const int NS = 4;
enum K { NEWF, ADDF, FINF, STARTF, COPYF, ASSIGNF, DESTROYF, UDSF, UNIONF, ISECTF, REVF, USELESSF, UNREACHF };
struct Op { K kind; int i, j, k, arg; };
static const int EDGES[3][3] = {{0, 0, 1}, {1, 1, 0}, {0, 1, 0}};   // relative (q, symbol, r); slot 0 uses states 0..1, slot 1 uses states 10..11
static std::vector<Op> buildMenu() { std::vector<Op> m;
  for (int i = 0; i < NS; i++) { m.push_back({NEWF, i, 0, 0, 0}); m.push_back({DESTROYF, i, 0, 0, 0}); }
  for (int i = 0; i < 2; i++) { for (int e = 0; e < 3; e++) m.push_back({ADDF, i, 0, 0, e}); for (int q = 0; q < 2; q++) { m.push_back({FINF, i, 0, 0, q}); m.push_back({STARTF, i, 0, 0, q}); } }
  for (int i = 0; i < NS; i++) for (int j = 0; j < NS; j++) if (i != j) { m.push_back({COPYF, i, j, 0, 0}); m.push_back({ASSIGNF, i, j, 0, 0}); }
  for (K kd : {UDSF, UNIONF, ISECTF}) for (int i = 0; i < 2; i++) for (int j = 0; j < 2; j++) for (int k = 2; k < NS; k++) m.push_back({kd, i, j, k, 0});
  for (K kd : {REVF, USELESSF, UNREACHF}) for (int i = 0; i < NS; i++) for (int k = 2; k < NS; k++) m.push_back({kd, i, 0, k, 0});
  return m; }
static const std::vector<Op>& menu() { static std::vector<Op> m = buildMenu(); return m; }
static const char* KN[] = {"new", "AddTransition", "SetStateFinal", "SetStateStart", "copy", "assign", "destroy", "UnionDisjointStates", "Union", "Intersection", "Reverse", "RemoveUselessStates", "RemoveUnreachableStates"};
static std::string opName(int x) { const Op& o = menu()[x]; char b[128]; size_t base = o.i == 1 ? 10 : 0;
  switch (o.kind) { case NEWF: case DESTROYF: snprintf(b, sizeof b, "t%d.%s", o.i, KN[o.kind]); break; case ADDF: snprintf(b, sizeof b, "t%d.Add(%zu-%c->%zu)", o.i, base + EDGES[o.arg][0], 'a' + EDGES[o.arg][1], base + EDGES[o.arg][2]); break;
    case FINF: case STARTF: snprintf(b, sizeof b, "t%d.%s(%zu)", o.i, KN[o.kind], base + o.arg); break; case COPYF: snprintf(b, sizeof b, "t%d=copy(t%d)", o.j, o.i); break; case ASSIGNF: snprintf(b, sizeof b, "t%d = t%d", o.j, o.i); break;
    case UDSF: case UNIONF: case ISECTF: snprintf(b, sizeof b, "t%d=%s(t%d,t%d)", o.k, KN[o.kind], o.i, o.j); break; default: snprintf(b, sizeof b, "t%d=t%d.%s", o.k, o.i, KN[o.kind]); }
  return b; }
static std::string describe(const std::vector<int>& h) { std::string s; for (size_t i = 0; i < h.size(); i++) s += (i ? "; " : "") + opName(h[i]); return s; }
struct Slot { std::unique_ptr<ExplicitFiniteAut> a; ref::NFA m; };
static std::string keyOf(Slot* s) { std::string k; std::map<const void*, int> ids; auto id = [&](const void* p) { if (!ids.count(p)) { int n = (int)ids.size(); ids[p] = n; } return ids[p]; };
  for (int i = 0; i < NS; i++) { if (!s[i].a) { k += "dead|"; continue; } const ExplicitFiniteAutCore& c = *s[i].a->core_; k += s[i].m.str() + "#M" + std::to_string(id(c.transitions_.get())) + "u" + std::to_string(std::min<long>(c.transitions_.use_count(), 3));
    std::map<size_t, const void*> cl; std::map<size_t, long> uc; for (auto& kv : *c.transitions_) { cl[kv.first] = kv.second.get(); uc[kv.first] = kv.second.use_count(); } for (auto& kv : cl) k += "q" + std::to_string(kv.first) + "c" + std::to_string(id(kv.second)) + "u" + std::to_string(std::min<long>(uc[kv.first], 3)); k += "|"; }
  return k; }
static hist::StepResult run(const std::vector<int>& h, Ctx& c, bool verbose) {
  hist::StepResult R; Slot s[NS]; const ExplicitFiniteAut::SymbolType SX = ref::startSymbol();
  for (size_t n = 0; n < h.size(); n++) { bool last = n + 1 == h.size(); if (last) R.prefixKey = keyOf(s);
    const Op& o = menu()[h[n]]; bool en = true; Slot &si = s[o.i], &sj = s[o.j], &sk = s[o.k]; size_t base = o.i == 1 ? 10 : 0;
    bool big = false;
    auto store = [&](Slot& dst, ExplicitFiniteAut&& res) { ref::NFA v = ref::readBackFA(res); if (v.states().size() > 8) { big = true; return v; } if (dst.a) *dst.a = res; else dst.a.reset(new ExplicitFiniteAut(res)); dst.m = v; return v; };
    auto semantic = [&](bool ok, const char* cls, const std::string& d) { if (last && !ok && !big) c.viol(std::string("NFA ") + KN[o.kind], cls, {}, d); };
    try { switch (o.kind) {
      case NEWF: if (si.a) { en = false; break; } si.a.reset(new ExplicitFiniteAut()); si.m = ref::NFA(); break;
      case DESTROYF: if (!si.a) { en = false; break; } si.a.reset(); si.m = ref::NFA(); break;
      case ADDF: if (!si.a) { en = false; break; } si.a->AddTransition(base + EDGES[o.arg][0], EDGES[o.arg][1], base + EDGES[o.arg][2]); si.m.edges.insert(std::make_tuple(base + EDGES[o.arg][0], EDGES[o.arg][1], base + EDGES[o.arg][2])); break;
      case FINF: if (!si.a) { en = false; break; } si.a->SetStateFinal(base + o.arg); si.m.finals.insert(base + o.arg); break;
      case STARTF: if (!si.a) { en = false; break; } si.a->SetStateStart(base + o.arg, SX); si.m.starts.insert(base + o.arg); break;
      case COPYF: if (!si.a || sj.a) { en = false; break; } sj.a.reset(new ExplicitFiniteAut(*si.a)); sj.m = si.m; break;
      case ASSIGNF: if (!si.a || !sj.a) { en = false; break; } *sj.a = *si.a; sj.m = si.m; break;
      case UDSF: if (!si.a || !sj.a || o.i == o.j) { en = false; break; } { ref::NFA a = si.m, b = sj.m; bool disj = true; for (auto q : a.states()) if (b.states().count(q)) disj = false; if (!disj) { en = false; break; }
          ref::NFA v = store(sk, ExplicitFiniteAut::UnionDisjointStates(*si.a, *sj.a)); semantic(ref::equalLang(v, ref::plainUnion(a, b)), "result_language_wrong", "result " + v.str()); } break;
      case UNIONF: if (!si.a || !sj.a) { en = false; break; } { ref::NFA a = si.m, b = sj.m; ref::NFA v = store(sk, ExplicitFiniteAut::Union(*si.a, *sj.a)); semantic(ref::equalLang(v, ref::disjointUnion(a, b)), "result_language_wrong", "result " + v.str()); } break;
      case ISECTF: if (!si.a || !sj.a) { en = false; break; } { ref::NFA a = si.m, b = sj.m; ref::NFA v = store(sk, ExplicitFiniteAut::Intersection(*si.a, *sj.a)); semantic(ref::equalLang(v, ref::product(a, b)), "result_language_wrong", "result " + v.str()); } break;
      case REVF: if (!si.a || o.i == o.k) { en = false; break; } { ref::NFA a = si.m; ref::NFA v = store(sk, si.a->Reverse()); semantic(ref::equalLang(v, ref::mirror(a)), "result_language_wrong", "result " + v.str()); } break;
      case USELESSF: if (!si.a || o.i == o.k) { en = false; break; } { ref::NFA a = si.m; ref::NFA v = store(sk, si.a->RemoveUselessStates()); semantic(ref::equalLang(v, a), "result_language_wrong", "result " + v.str()); } break;
      case UNREACHF: if (!si.a || o.i == o.k) { en = false; break; } { ref::NFA a = si.m; ref::NFA v = store(sk, si.a->RemoveUnreachableStates()); semantic(ref::equalLang(v, a), "result_language_wrong", "result " + v.str()); } break;
    } } catch (std::exception& e) { if (last) c.viol(std::string("NFA ") + KN[o.kind], "exception", {}, e.what()); }
    if (!en || big) { R.enabled = false; return R; }
    if (last || verbose) for (int i = 0; i < NS; i++) if (s[i].a) { ref::NFA got = ref::readBackFA(*s[i].a); if (got != s[i].m) c.viol("NFA value semantics", i == o.i || i == o.j || i == o.k ? "handle_involved_in_the_step_reads_wrong_value" : "uninvolved_handle_changed", {std::string("after_") + KN[o.kind]}, "t" + std::to_string(i) + " reads " + got.str() + " expected " + s[i].m.str()); }
  }
  R.key = keyOf(s); if (h.empty()) R.prefixKey = ""; { std::set<const void*> seen; for (int i = 0; i < NS; i++) if (s[i].a) { const ExplicitFiniteAutCore& cc = *s[i].a->core_; if (!seen.insert(cc.transitions_.get()).second) R.sharing = true; for (auto& kv : *cc.transitions_) if (!seen.insert(kv.second.get()).second) R.sharing = true; } }
  return R;
}
static void body(Env& env, const std::string& stage, int depth, uint64_t budget) {
  hist::Spec sp; sp.stage = stage; sp.menuSize = (int)menu().size(); sp.maxDepth = depth; sp.stateBudget = budget; bool verbose = !env.replayArg.empty();
  sp.run = [verbose](const std::vector<int>& h, Ctx& c) { return run(h, c, verbose); }; sp.describe = describe; hist::bfs(env, sp);
}
}  // namespace fa

static Register r1("c11.tree.d3", "C11", "ExplicitTreeAut, 3 slots, BFS depth 3 over the full menu (copy/assign/move/mutate/clear/destroy + 12 result-producing operations)", [](Env& e) { body(e, "c11.tree.d3", 3, 3000000); });
static Register r2("c11.tree.d4", "C11", "ExplicitTreeAut, 3 slots, BFS depth 4", [](Env& e) { body(e, "c11.tree.d4", 4, 3000000); });
static Register r3("c11.tree.d5", "C11", "ExplicitTreeAut, 3 slots, BFS depth 5 (state budget 3M)", [](Env& e) { body(e, "c11.tree.d5", 5, 3000000); });
static Register r4("c11.tree.d6", "C11", "ExplicitTreeAut, 3 slots, BFS depth 6 (state budget 6M)", [](Env& e) { body(e, "c11.tree.d6", 6, 6000000); });
static Register r7("c11.tree.seeded.d3", "C11", "ExplicitTreeAut, BFS depth 3 from the seeded sharing state", [](Env& e) { body(e, "c11.tree.seeded.d3", 3, 3000000, true); });
static Register r5("c11.tree.seeded.d4", "C11", "ExplicitTreeAut, BFS depth 4 from a non-initial state (s0 with 3 rules and a final state, s1 a copy sharing all storage)", [](Env& e) { body(e, "c11.tree.seeded.d4", 4, 3000000, true); });
static Register r6("c11.tree.seeded.d5", "C11", "ExplicitTreeAut, BFS depth 5 from the seeded sharing state", [](Env& e) { body(e, "c11.tree.seeded.d5", 5, 6000000, true); });
static Register f1("c11.fa.d5", "C11", "ExplicitFiniteAut, 4 slots (2 operands with fixed disjoint state ranges, 2 result slots), BFS depth 5", [](Env& e) { fa::body(e, "c11.fa.d5", 5, 3000000); });
static Register f2("c11.fa.d6", "C11", "ExplicitFiniteAut, 4 slots, BFS depth 6", [](Env& e) { fa::body(e, "c11.fa.d6", 6, 3000000); });
static Register f3("c11.fa.d7", "C11", "ExplicitFiniteAut, 4 slots, BFS depth 7", [](Env& e) { fa::body(e, "c11.fa.d7", 7, 6000000); });

}  // namespace c11
