// C12 — rule container, iterators and lookups reflect exactly the rules added (E-HIST, one automaton + one copy).
#include "hist.hh"
#include "domain.hh"
#include "explicit_tree_aut_core.hh"
#include "loadable_aut.hh"
#include <iostream>

using namespace verif; using namespace VATA;

namespace c12 {

static const ref::Rule RULES[8] = {
  {0, {}, 0}, {0, {}, 1}, {0, {0}, 0}, {0, {1}, 0}, {0, {0, 1}, 0}, {1, {0, 1}, 0}, {1, {0, 1}, 1}, {1, {}, 2}};   // symbol 0 with arities 0,1,2; same tuple under two symbols / parents
// menu: 0..7 AddTransition(RULES[i]); 8..10 SetStateFinal(0|1|2); 11 SetStatesFinal({0,2}); 12 SetStatesFinal({}); 13 EraseFinalStates; 14 Clear; 15 b = a (copy-assign); 16 AreTransitionsEmpty (un-shares)
static const int MENU = 17;
static std::string opName(int o) {
  if (o < 8) { ref::TA t; t.rules.insert(RULES[o]); return "Add(" + t.str().substr(5) + ")"; }
  switch (o) { case 8: return "SetStateFinal(0)"; case 9: return "SetStateFinal(1)"; case 10: return "SetStateFinal(2)"; case 11: return "SetStatesFinal({0,2})"; case 12: return "SetStatesFinal({})";
    case 13: return "EraseFinalStates"; case 14: return "Clear"; case 15: return "b=a"; default: return "AreTransitionsEmpty"; }
}
static std::string describe(const std::vector<int>& h) { std::string s; for (size_t i = 0; i < h.size(); i++) s += (i ? "; " : "") + opName(h[i]); return s; }

struct Model { std::set<ref::Rule> rules; std::set<size_t> finals; };

static std::string sharingKey(const ExplicitTreeAut& a, const ExplicitTreeAut& b) {
  const ExplicitTreeAutCore& ca = *a.core_; const ExplicitTreeAutCore& cb = *b.core_;
  std::string k = ca.transitions_.get() == cb.transitions_.get() ? "M=" : "M!";
  for (size_t q = 0; q < 3; q++) { auto ia = ca.transitions_->find(q), ib = cb.transitions_->find(q); bool ha = ia != ca.transitions_->end(), hb = ib != cb.transitions_->end();
    k += ha && hb ? (ia->second.get() == ib->second.get() ? "c=" : "c!") : "c-";
    if (ha && hb) for (size_t s = 0; s < 2; s++) { auto ja = ia->second->find(s), jb = ib->second->find(s); bool xa = ja != ia->second->end(), xb = jb != ib->second->end(); k += xa && xb ? (ja->second.get() == jb->second.get() ? "t=" : "t!") : "t-"; } }
  return k;
}

static void checkViews(ExplicitTreeAut& a, const Model& m, const char* who, Ctx& c, bool mayUnshare) {
  auto bad = [&](const std::string& sub, const std::string& cls, const std::string& d) { c.viol(sub, cls, {who}, std::string(who) + ": " + d); };
  ref::TA M; M.rules = m.rules; M.finals = m.finals;
  // iteration: each rule exactly once
  { std::multiset<ref::Rule> got; for (auto t : a) got.insert({(int)t.GetSymbol(), t.GetChildren(), t.GetParent()}); std::multiset<ref::Rule> exp(m.rules.begin(), m.rules.end());
    if (got != exp) { ref::TA G; G.rules.insert(got.begin(), got.end()); bool dup = got.size() != G.rules.size(); bad("iteration", dup ? "rule_yielded_twice" : (G.rules.size() < m.rules.size() ? "rule_missing" : "rules_differ"), "iteration yields " + G.str() + " (" + std::to_string(got.size()) + " items), expected " + M.str()); }
    const ExplicitTreeAut& ca = a; if ((ca.begin() == ca.end()) != m.rules.empty()) bad("iteration", "begin_equals_end_inconsistent", "begin()==end() is " + std::to_string(ca.begin() == ca.end()) + " with " + std::to_string(m.rules.size()) + " rules"); }
  // ContainsTransition on the whole universe + two foreign rules
  for (int i = 0; i < 8; i++) { bool g = a.ContainsTransition(RULES[i].ch, RULES[i].sym, RULES[i].par); if (g != (m.rules.count(RULES[i]) > 0)) bad("ContainsTransition", g ? "true_for_absent_rule" : "false_for_present_rule", "rule #" + std::to_string(i) + " model " + M.str()); }
  { if (a.ContainsTransition({1, 0}, 0, 0) || a.ContainsTransition({}, 1, 0) || a.ContainsTransition({0, 1}, 2, 0) || a.ContainsTransition(ExplicitTreeAut::Transition(1, 0, {0, 1}))) bad("ContainsTransition", "true_for_absent_rule", "foreign rule reported present; model " + M.str()); }
  // accepting transitions
  { std::multiset<ref::Rule> got; for (auto t : a.GetAcceptTrans()) got.insert({(int)t.GetSymbol(), t.GetChildren(), t.GetParent()}); std::multiset<ref::Rule> exp; for (auto& r : m.rules) if (m.finals.count(r.par)) exp.insert(r);
    if (got != exp) { ref::TA G; G.rules.insert(got.begin(), got.end()); bad("GetAcceptTrans", got.size() > G.rules.size() ? "rule_yielded_twice" : "not_the_rules_with_final_parent", "yields " + G.str() + " (" + std::to_string(got.size()) + " items); model " + M.str()); } }
  // down accessor per state
  for (size_t q = 0; q < 4; q++) { std::multiset<ref::Rule> got; auto da = a[q]; for (auto t : da) got.insert({(int)t.GetSymbol(), t.GetChildren(), t.GetParent()}); std::multiset<ref::Rule> exp; for (auto& r : m.rules) if (r.par == q) exp.insert(r);
    if (got != exp) { ref::TA G; G.rules.insert(got.begin(), got.end()); bad("operator[]", "not_the_rules_of_that_parent", "a[" + std::to_string(q) + "] yields " + G.str() + " (" + std::to_string(got.size()) + " items); model " + M.str()); }
    if (!da.empty() && exp.empty()) bad("operator[]", "nonempty_accessor_without_rules", "a[" + std::to_string(q) + "].empty()==false; model " + M.str());
    if (da.empty() && !exp.empty()) bad("operator[]", "empty_accessor_with_rules", "a[" + std::to_string(q) + "].empty()==true; model " + M.str());
  }   // (ExplicitTreeAut::GetDown is declared in the public header but defined nowhere, so only operator[] can be called)
  // used / final states
  { auto u = a.GetUsedStates(); std::set<size_t> got(u.begin(), u.end()); if (got != M.states()) { std::string s; for (auto q : got) s += std::to_string(q) + " "; bad("GetUsedStates", "not_the_states_in_rules_or_finals", "got {" + s + "}; model " + M.str()); } }
  { auto& f = a.GetFinalStates(); std::set<size_t> got(f.begin(), f.end()); if (got != m.finals) bad("GetFinalStates", "differs", "model " + M.str()); for (size_t q = 0; q < 4; q++) if (a.IsStateFinal(q) != (m.finals.count(q) > 0)) bad("IsStateFinal", "differs", "state " + std::to_string(q) + " model " + M.str()); }
  if (mayUnshare) { bool e = a.AreTransitionsEmpty(); if (e != m.rules.empty()) bad("AreTransitionsEmpty", e ? "true_with_rules" : "false_without_rules", "model " + M.str()); }
}

static hist::StepResult run(const std::vector<int>& h, Ctx& c, bool withCopy) {
  hist::StepResult R; if (!withCopy) for (int o : h) if (o == 15) { R.enabled = false; return R; }
  ExplicitTreeAut a, b; Model ma, mb;
  for (size_t i = 0; i < h.size(); i++) {
    if (i + 1 == h.size()) R.prefixKey = ref::TA{ma.rules, ma.finals}.str() + "|" + ref::TA{mb.rules, mb.finals}.str() + "|" + sharingKey(a, b);
    int o = h[i];
    if (o < 8) { if (o % 2) a.AddTransition(ExplicitTreeAut::Transition(RULES[o].par, RULES[o].sym, RULES[o].ch)); else a.AddTransition(RULES[o].ch, RULES[o].sym, RULES[o].par); ma.rules.insert(RULES[o]); }
    else if (o <= 10) { a.SetStateFinal(o - 8); ma.finals.insert(o - 8); }
    else if (o == 11) { a.SetStatesFinal({0, 2}); ma.finals.insert(0); ma.finals.insert(2); }
    else if (o == 12) { a.SetStatesFinal({}); }
    else if (o == 13) { a.EraseFinalStates(); ma.finals.clear(); }
    else if (o == 14) { a.Clear(); ma.rules.clear(); ma.finals.clear(); }
    else if (o == 15) { b = a; mb = ma; }
    else { bool e = a.AreTransitionsEmpty(); if (i + 1 == h.size() && e != ma.rules.empty()) c.viol("AreTransitionsEmpty", e ? "true_with_rules" : "false_without_rules", {"a"}, "direct call"); }
  }
  if (h.empty()) R.prefixKey = "";
  R.key = ref::TA{ma.rules, ma.finals}.str() + "|" + ref::TA{mb.rules, mb.finals}.str() + "|" + sharingKey(a, b);
  R.sharing = a.core_->transitions_.get() == b.core_->transitions_.get() || R.key.find("c=") != std::string::npos;
  // invariants in the reached state: all read-only views of both handles (the copy keeps the value it had when it was taken)
  checkViews(a, ma, "a", c, false); checkViews(b, mb, "b", c, false);
  { ExplicitTreeAut a2(a), b2(b); checkViews(a2, ma, "copy_of_a", c, true); checkViews(b2, mb, "copy_of_b", c, true); }   // AreTransitionsEmpty on copies, so it does not disturb the explored sharing
  checkViews(a, ma, "a", c, false);
  return R;
}

static void body(Env& env, const std::string& stage, int depth, bool withCopy = true) {
  hist::Spec sp; sp.stage = stage; sp.menuSize = MENU; sp.maxDepth = depth; sp.run = [withCopy](const std::vector<int>& h, Ctx& c) { return run(h, c, withCopy); }; sp.describe = describe; sp.stateBudget = 3000000;
  hist::bfs(env, sp);
}

static Register r1("c12.d4", "C12", "BFS depth 4 over Add(8 colliding rules)/SetStateFinal/SetStatesFinal/EraseFinalStates/Clear/copy/AreTransitionsEmpty, all views after every step", [](Env& e) { body(e, "c12.d4", 4); });
static Register r2("c12.d5", "C12", "BFS depth 5", [](Env& e) { body(e, "c12.d5", 5); });
static Register r3("c12.d6", "C12", "BFS depth 6", [](Env& e) { body(e, "c12.d6", 6); });
static Register r4("c12.d7", "C12", "BFS depth 7", [](Env& e) { body(e, "c12.d7", 7); });
static Register r6("c12.d8", "C12", "BFS depth 8", [](Env& e) { body(e, "c12.d8", 8); });
static Register r7("c12.d9", "C12", "BFS depth 9", [](Env& e) { body(e, "c12.d9", 9); });
static Register r5("c12.sat", "C12", "single automaton (no copy op): BFS until no new abstract state appears (all 2^8 x 2^3 values), depth bound 14", [](Env& e) { body(e, "c12.sat", 14, false); });

}  // namespace c12
