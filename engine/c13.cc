// C13 — Timbuk text round-trips; malformed text is rejected by a std::exception (never a crash, hang or memory error).
#include "runner.hh"
#include "domain.hh"
#include "ref_nfa.hh"
#include <vata/bdd_bu_tree_aut.hh>
#include <vata/bdd_td_tree_aut.hh>
#include <vata/parsing/timbuk_parser.hh>
#include <vata/serialization/timbuk_serializer.hh>

using namespace verif; using namespace VATA; using VATA::Util::AutDescription;

namespace c13 {

static std::string descStr(const AutDescription& d) { std::string s = "name=" + d.name + " finals={"; for (auto& f : d.finalStates) s += f + " "; s += "} rules={"; for (auto& t : d.transitions) { s += t.second + "("; for (auto& c : t.first) s += c + ","; s += ")->" + t.third + "; "; } return s + "}"; }

// ---- (a) descriptions: parse(serialize(d)) == d, and textual variants of the same description
// name tables: plain names, and names made of every character class a name may contain besides letters and digits ('-' and '>' on their own, '_', '.', a keyword)
static const char* NAMES_ST[3][3] = {{"q", "q0", "1"}, {"q-0", "x>y", "_"}, {">", "States", "p.1"}};
static const char* NAMES_SY[3][3] = {{"a", "f", "g1"}, {"cons-2", "a>", "-"}, {"Final", "+", "a-"}};
static void descRoundTrip(Env& env, const std::string& stage, int maxRules, int names = 0) {
  const char* const* ST = NAMES_ST[names]; const char* const* SY = NAMES_SY[names];
  struct R { int sym; std::vector<int> ch; int par; }; auto U = std::make_shared<std::vector<R>>();
  for (int s = 0; s < 3; s++) for (int p = 0; p < 3; p++) { U->push_back({s, {}, p}); for (int c1 = 0; c1 < 3; c1++) { U->push_back({s, {c1}, p}); for (int c2 = 0; c2 < 3; c2++) U->push_back({s, {c1, c2}, p}); } }
  auto items = std::make_shared<std::vector<std::vector<int>>>(); { std::vector<int> pick; std::function<void(size_t, int)> rec = [&](size_t from, int left) { items->push_back(pick); if (!left) return; for (size_t i = from; i < U->size(); i++) { pick.push_back((int)i); rec(i + 1, left - 1); pick.pop_back(); } }; rec(0, maxRules); }
  std::stable_sort(items->begin(), items->end(), [](const std::vector<int>& a, const std::vector<int>& b) { return a.size() < b.size(); });
  env.noteNum(stage + ".rule_sets", items->size());
  ParallelOpts o; o.stage = stage; o.size = items->size() * 16; o.block = 1024;
  o.run = [items, U, ST, SY](uint64_t idx, Ctx& c) {
    const std::vector<int>& pick = (*items)[idx / 16]; unsigned fin = idx % 16 & 7; bool named = idx % 16 >> 3;
    AutDescription d; if (named) d.name = "A_1"; for (int q = 0; q < 3; q++) if (fin >> q & 1) { d.finalStates.insert(ST[q]); d.states.insert(ST[q]); }
    for (int i : pick) { const R& r = (*U)[i]; std::vector<std::string> ch; for (int x : r.ch) { ch.push_back(ST[x]); d.states.insert(ST[x]); } d.states.insert(ST[r.par]); d.symbols.insert({SY[r.sym], (int)r.ch.size()}); d.transitions.insert(AutDescription::Transition(ch, SY[r.sym], ST[r.par])); }
    c.evals(); if (!pick.empty()) c.nontrivial(); if (pick.empty()) c.count("class_empty_transition_section"); if (!fin) c.count("class_empty_final_set");
    bool hasNullary = false; for (int i : pick) if ((*U)[i].ch.empty()) hasNullary = true; if (hasNullary) c.count("class_nullary_rule");
    if (c.wantSample() && pick.size() >= 2) c.sample(descStr(d));
    VATA::Serialization::TimbukSerializer ser; VATA::Parsing::TimbukParser par;
    try { std::string txt = ser.Serialize(d); AutDescription e = par.ParseString(txt);
      if (!(e == d)) { c.viol("ParseString(Serialize(d))", "final_states_or_rules_differ", {}, "d: " + descStr(d) + "\nparsed back: " + descStr(e) + "\ntext:\n" + txt, pick.size()); return; }
      if (e.symbols != d.symbols || e.states != d.states) c.viol("ParseString(Serialize(d))", "declared_symbols_or_states_differ", {}, "d: " + descStr(d) + "\ntext:\n" + txt, pick.size());
      // textual variants the statement names: nullary rules with "()", runs of blanks and tabs, blank lines, no Ops/States sections content
      std::string v1 = "Ops\nAutomaton x\nStates\nFinal States"; for (auto& f : d.finalStates) v1 += "  \t " + f; v1 += "\n\n  \nTransitions\n";
      for (auto& t : d.transitions) { v1 += " \t" + t.second + "("; for (size_t i = 0; i < t.first.size(); i++) v1 += (i ? " ,\t" : " ") + t.first[i] + " "; v1 += ")  ->\t " + t.third + "  \n\n"; }
      AutDescription e1 = par.ParseString(v1); if (!(e1 == d)) c.viol("ParseString(variant with () and blank runs)", "final_states_or_rules_differ", {}, "d: " + descStr(d) + "\nparsed: " + descStr(e1) + "\ntext:\n" + v1, pick.size());
      std::string v2 = "Final States"; for (auto& f : d.finalStates) v2 += " " + f + ":0"; v2 += "\nAutomaton y\nTransitions\n"; for (auto& t : d.transitions) { v2 += t.second; if (!t.first.empty()) { v2 += "("; for (size_t i = 0; i < t.first.size(); i++) v2 += (i ? "," : "") + t.first[i]; v2 += ")"; } v2 += "->" + t.third + "\n"; }
      AutDescription e2 = par.ParseString(v2); if (!(e2 == d)) c.viol("ParseString(variant without blanks, sections reordered)", "final_states_or_rules_differ", {}, "d: " + descStr(d) + "\nparsed: " + descStr(e2) + "\ntext:\n" + v2, pick.size());
      // nullary rules whose parentheses hold only blanks ("a( ) -> q", "a(\t) -> q"); blanks between the symbol and its parenthesis
      if (hasNullary || !pick.empty()) { std::string v3 = "Ops\nAutomaton z\nStates\nFinal States"; for (auto& f : d.finalStates) v3 += "\t" + f; v3 += "\nTransitions\n"; int k = 0;
        for (auto& t : d.transitions) { static const char* IN[3] = {" ", "\t", " \t  "}; v3 += t.second + (k % 2 ? " " : "") + "("; if (t.first.empty()) v3 += IN[k % 3]; for (size_t i = 0; i < t.first.size(); i++) v3 += std::string(i ? "," : "") + IN[(k + i) % 3] + t.first[i]; v3 += ") -> " + t.third + "\n"; k++; }
        AutDescription e3 = par.ParseString(v3); if (!(e3 == d)) c.viol("ParseString(variant with blanks inside parentheses)", "final_states_or_rules_differ", {}, "d: " + descStr(d) + "\nparsed: " + descStr(e3) + "\ntext:\n" + v3, pick.size()); }
    } catch (std::exception& ex) { c.viol("ParseString(Serialize(d))", "exception_on_well_formed_text", {}, "d: " + descStr(d) + " " + ex.what(), pick.size()); }
  };
  env.parallel(o);
}

// ---- (b) dump / load in the four encodings
template <class Aut> static void dumpLoad(const std::string& enc, const std::string& txt, Ctx& c, const std::string& what, uint64_t w, bool compareWithSource) {
  VATA::Serialization::TimbukSerializer ser; VATA::Parsing::TimbukParser par;
  try { AutDescription src = par.ParseString(txt);
    Aut a; AutBase::StateDict sd; a.LoadFromString(par, txt, sd); std::string t1 = a.DumpToString(ser, sd); AutDescription d1 = par.ParseString(t1);
    Aut b; AutBase::StateDict sd2; b.LoadFromString(par, t1, sd2); std::string t2 = b.DumpToString(ser, sd2); AutDescription d2 = par.ParseString(t2); c.count("dump_load_cycles");
    if (compareWithSource && !(d1 == src)) c.viol(enc + "/dump(load(text))", "differs_from_the_loaded_description", {}, what + "\nsource text:\n" + txt + "dump:\n" + t1, w);
    if (!(d2 == d1)) c.viol(enc + "/dump(load(dump))", "rules_or_final_states_differ_after_reload", {}, what + "\nfirst dump:\n" + t1 + "second dump:\n" + t2, w);
  } catch (std::exception& e) { c.viol(enc + "/dump-load", "exception", {}, what + " " + e.what() + "\ntext:\n" + txt, w); }
}
static void encTree(Env& env, const std::string& stage, int n, const dom::Alphabet& sig, int k, bool nastyStateNames = false) {
  auto D = std::make_shared<dom::TADomain>(n, sig, k);
  dom::forEachTA(env, stage, D, [D, nastyStateNames](const ref::TA& A, size_t idx, Ctx& c) { c.evals(); if (A.rules.size() >= 1) c.nontrivial(); std::string txt = dom::timbuk(A, D->sig);
    if (nastyStateNames) { std::string t2; for (size_t i = 0; i < txt.size(); i++) { if (txt[i] == 'q' && i + 1 < txt.size() && isdigit((unsigned char)txt[i + 1]) && (i == 0 || !isalnum((unsigned char)txt[i - 1]))) { t2 += "x>"; t2 += txt[i + 1]; t2 += '-'; i++; } else t2 += txt[i]; } txt = t2; } uint64_t w = A.rules.size(); std::string what = D->str(A);
    if (c.wantSample() && A.rules.size() >= 3) c.sample(what);
    dumpLoad<ExplicitTreeAut>("expl", txt, c, what, w, true); dumpLoad<BDDBottomUpTreeAut>("bdd-bu", txt, c, what, w, true); dumpLoad<BDDTopDownTreeAut>("bdd-td", txt, c, what, w, true); }, 64, 30);
}
static void encFA(Env& env, const std::string& stage, int n, int L, int k) {
  auto D = std::make_shared<ref::FADomain>(n, L, k); env.noteNum(stage + ".automata", D->size());
  ParallelOpts o; o.stage = stage; o.size = D->size() * 2; o.block = 256;
  o.run = [D, L](uint64_t idx, Ctx& c) { ref::NFA A = D->get(idx / 2); bool twoStartSymbols = idx % 2; if (twoStartSymbols && A.starts.empty()) return; c.evals(); if (!A.edges.empty()) c.nontrivial();
    std::string txt = ref::timbukFA(A, L); if (twoStartSymbols) { c.count("class_start_state_with_two_start_symbols"); size_t p = txt.find("Ops x:0"); txt.replace(p, 7, "Ops x:0 y:0"); txt += "y -> q" + std::to_string(*A.starts.begin()) + "\n"; }
    dumpLoad<ExplicitFiniteAut>("expl_fa", txt, c, A.str() + (twoStartSymbols ? " + second start symbol y on the first start state" : ""), A.edges.size(), true); };
  env.parallel(o);
}

// ---- (c) arbitrary text: every token string up to a length, and every single/double token edit of valid templates
static const int NTOK = 21;   // keywords, names, punctuation, and EVERY character std::isspace accepts (blank, \n, \t, \r, \v, \f), plus a non-ASCII byte
static const char* TOK[NTOK] = {"Ops", "Automaton", "States", "Final", "Transitions", "a", "q", ":", "1", "-1", "(", ")", ",", "->", " ", "\n", "\xff", "\t", "\r", "\v", "\f"};
static int tryAll(const std::string& txt, std::string& where) {   // 0 = every entry point succeeded or threw std::exception; 1 = something else was thrown
  VATA::Parsing::TimbukParser par;
  auto one = [&](const char* nm, std::function<void()> f) { try { f(); } catch (std::exception&) {} catch (...) { where = nm; return 1; } return 0; };
  int r = 0;
  r |= one("TimbukParser::ParseString", [&] { par.ParseString(txt); });
  r |= one("ExplicitTreeAut::LoadFromString", [&] { ExplicitTreeAut a; a.LoadFromString(par, txt); });
  r |= one("ExplicitFiniteAut::LoadFromString", [&] { ExplicitFiniteAut a; a.LoadFromString(par, txt); });
  r |= one("BDDBottomUpTreeAut::LoadFromString", [&] { BDDBottomUpTreeAut a; a.LoadFromString(par, txt); });
  r |= one("BDDTopDownTreeAut::LoadFromString", [&] { BDDTopDownTreeAut a; a.LoadFromString(par, txt); });
  return r;
}
static std::string vis(const std::string& s) { std::string o; for (unsigned char ch : s) { if (ch == '\n') o += "\\n"; else if (ch == '\t') o += "\\t"; else if (ch == '\r') o += "\\r"; else if (ch == '\v') o += "\\v"; else if (ch == '\f') o += "\\f"; else if (ch >= 0x7f) o += "\\xff"; else o += char(ch); } return o; }
static void tokenStrings(Env& env, const std::string& stage, int len) {
  uint64_t n = 1; for (int i = 0; i < len; i++) n *= NTOK;
  ParallelOpts o; o.stage = stage; o.size = n; o.block = 512; o.caseTimeout = 5;
  o.describe = [len](uint64_t idx) { std::string t; for (int i = 0; i < len; i++) { t += TOK[idx % NTOK]; idx /= NTOK; } return "text: \"" + vis(t) + "\""; };
  o.run = [len](uint64_t idx, Ctx& c) { std::string t; uint64_t x = idx; for (int i = 0; i < len; i++) { t += TOK[x % NTOK]; x /= NTOK; } c.evals(); c.nontrivial(); std::string where;
    if (c.wantSample() && idx % 7919 == 3) c.sample("\"" + vis(t) + "\"");
    if (tryAll(t, where)) c.viol(where, "non_standard_exception_on_arbitrary_text", {}, "text: \"" + vis(t) + "\""); };
  env.parallel(o);
}
static const char* TEMPLATES[3] = {
  "Ops a:0 f:2\nAutomaton A\nStates q p\nFinal States q\nTransitions\na -> q\nf(q,p) -> q\n",
  "Ops x:0 a:1\nAutomaton B\nStates s t\nFinal States t\nTransitions\nx -> s\na(s) -> t\n",
  "Ops\nAutomaton anonymous\nStates\nFinal States\nTransitions\na() -> q\n"};
static std::vector<std::string> tokenize(const std::string& s) { std::vector<std::string> t; size_t i = 0; while (i < s.size()) { if (isalnum((unsigned char)s[i])) { size_t j = i; while (j < s.size() && isalnum((unsigned char)s[j])) j++; t.push_back(s.substr(i, j - i)); i = j; } else if (s.compare(i, 2, "->") == 0) { t.push_back("->"); i += 2; } else { t.push_back(s.substr(i, 1)); i++; } } return t; }
// an edit = (position, kind): delete, duplicate, or replace by one of the 17 tokens
static std::vector<std::string> applyEdit(std::vector<std::string> t, uint64_t e) { size_t pos = e / (NTOK + 2); int kind = (int)(e % (NTOK + 2)); if (pos >= t.size()) return t; if (kind == 0) t.erase(t.begin() + pos); else if (kind == 1) t.insert(t.begin() + pos, t[pos]); else t[pos] = TOK[kind - 2]; return t; }
static void templateEdits(Env& env, const std::string& stage, bool doubleEdits) {
  struct T { std::vector<std::string> tok; uint64_t ne; }; auto TS = std::make_shared<std::vector<T>>(); uint64_t total = 0; std::vector<uint64_t> off;
  for (auto tp : TEMPLATES) { T t; t.tok = tokenize(tp); t.ne = (uint64_t)t.tok.size() * (NTOK + 2); TS->push_back(t); off.push_back(total); total += doubleEdits ? t.ne * (t.ne + NTOK + 2) : t.ne; }
  auto OFF = std::make_shared<std::vector<uint64_t>>(off);
  auto make = [TS, OFF, doubleEdits](uint64_t idx) { size_t ti = 0; while (ti + 1 < OFF->size() && idx >= (*OFF)[ti + 1]) ti++; uint64_t x = idx - (*OFF)[ti]; const T& t = (*TS)[ti]; std::vector<std::string> r;
    if (!doubleEdits) r = applyEdit(t.tok, x); else { r = applyEdit(t.tok, x % t.ne); r = applyEdit(r, x / t.ne); } std::string s; for (auto& k : r) s += k; return s; };
  ParallelOpts o; o.stage = stage; o.size = total; o.block = 256; o.caseTimeout = 5;
  o.describe = [make](uint64_t idx) { return "text: \"" + vis(make(idx)) + "\""; };
  o.run = [make](uint64_t idx, Ctx& c) { std::string t = make(idx); c.evals(); c.nontrivial(); std::string where; if (c.wantSample() && idx % 4001 == 7) c.sample("\"" + vis(t) + "\"");
    if (tryAll(t, where)) c.viol(where, "non_standard_exception_on_arbitrary_text", {}, "text: \"" + vis(t) + "\""); };
  env.parallel(o);
}

// every BYTE string up to a length (all 256 byte values: no character class can be missed), through the parser and the explicit loader
static void byteStrings(Env& env, const std::string& stage, int len) {
  uint64_t n = 1; for (int i = 0; i < len; i++) n *= 256;
  ParallelOpts o; o.stage = stage; o.size = n; o.block = 4096; o.caseTimeout = 5;
  auto mk = [len](uint64_t idx) { std::string t; for (int i = 0; i < len; i++) { t += char(idx & 255); idx >>= 8; } return t; };
  o.describe = [mk](uint64_t idx) { std::string t = mk(idx), h; char b[8]; for (unsigned char ch : t) { snprintf(b, sizeof b, "\\x%02x", ch); h += b; } return "bytes: " + h; };
  o.run = [mk](uint64_t idx, Ctx& c) { std::string t = mk(idx); c.evals(); c.nontrivial(); VATA::Parsing::TimbukParser par;
    try { par.ParseString(t); } catch (std::exception&) {} catch (...) { c.viol("TimbukParser::ParseString", "non_standard_exception_on_arbitrary_text", {}, "byte string #" + std::to_string(idx)); }
    try { ExplicitTreeAut a; a.LoadFromString(par, t); } catch (std::exception&) {} catch (...) { c.viol("ExplicitTreeAut::LoadFromString", "non_standard_exception_on_arbitrary_text", {}, "byte string #" + std::to_string(idx)); } };
  env.parallel(o);
}
// every single-BYTE edit (replace by each of the 256 values, delete, insert each value) of the valid templates, through all five entry points
static void byteEdits(Env& env, const std::string& stage) {
  uint64_t total = 0; std::vector<uint64_t> off; for (auto tp : TEMPLATES) { off.push_back(total); total += (uint64_t)(strlen(tp) + 1) * 513; }
  auto OFF = std::make_shared<std::vector<uint64_t>>(off);
  auto mk = [OFF](uint64_t idx) { size_t ti = 0; while (ti + 1 < OFF->size() && idx >= (*OFF)[ti + 1]) ti++; uint64_t x = idx - (*OFF)[ti]; std::string t = TEMPLATES[ti]; size_t pos = x / 513; int k = (int)(x % 513);
    if (k < 256) { if (pos < t.size()) t[pos] = char(k); } else if (k < 512) t.insert(t.begin() + std::min(pos, t.size()), char(k - 256)); else if (pos < t.size()) t.erase(pos, 1); return t; };
  ParallelOpts o; o.stage = stage; o.size = total; o.block = 512; o.caseTimeout = 5;
  o.describe = [mk](uint64_t idx) { return "text: \"" + vis(mk(idx)) + "\""; };
  o.run = [mk](uint64_t idx, Ctx& c) { std::string t = mk(idx); c.evals(); c.nontrivial(); std::string where; if (c.wantSample() && idx % 9001 == 11) c.sample("\"" + vis(t) + "\"");
    if (tryAll(t, where)) c.viol(where, "non_standard_exception_on_arbitrary_text", {}, "text: \"" + vis(t) + "\""); };
  env.parallel(o);
}
// ---- (d) blank placement: one rule line cut into atoms; EVERY assignment of a filler (nothing, blank, tab, a run of all non-newline isspace characters) to EVERY gap between
// atoms, before the first and after the last one; the header with each non-empty filler between its words.  The description parsed must be the same for every placement, and
// so must what the four loaders dump.
static const char* GAPRULES[6] = {"a|->|q", "a|(|)|->|q", "f|(|q|)|->|p", "g|(|q|,|p|)|->|q", "h|(|q|,|p|,|q|)|->|p", "a|(|)|->|q\nb|->|q"};
static const char* FILL[4] = {"", " ", "\t", " \v\f\r\t "};
static void gapFill(Env& env, const std::string& stage) {
  struct G { std::vector<std::string> atoms; uint64_t n; AutDescription want; }; auto GS = std::make_shared<std::vector<G>>(); std::vector<uint64_t> off; uint64_t total = 0;
  for (auto r : GAPRULES) { G g; std::string cur; for (const char* p = r;; p++) { if (*p == '|' || *p == '\n' || !*p) { g.atoms.push_back(cur); cur.clear(); if (*p == '\n') g.atoms.push_back("\n"); if (!*p) break; } else cur += *p; }
    size_t gaps = g.atoms.size() + 1; g.n = 1; for (size_t i = 0; i < gaps; i++) g.n *= 4;
    { std::vector<std::string> ch; std::string sym, par; int ph = 0; auto flush = [&] { if (!sym.empty()) { g.want.transitions.insert(AutDescription::Transition(ch, sym, par)); } ch.clear(); sym.clear(); par.clear(); ph = 0; };
      for (auto& a : g.atoms) { if (a == "\n") { flush(); continue; } if (a == "(" || a == ")" || a == ",") continue; if (a == "->") { ph = 2; continue; } if (ph == 0) { sym = a; ph = 1; } else if (ph == 1) ch.push_back(a); else par = a; } flush(); g.want.finalStates.insert("q"); }
    off.push_back(total); total += g.n * 3; GS->push_back(g); }
  auto OFF = std::make_shared<std::vector<uint64_t>>(off);
  auto make = [GS, OFF](uint64_t idx, size_t& gi) { gi = 0; while (gi + 1 < OFF->size() && idx >= (*OFF)[gi + 1]) gi++; uint64_t x = idx - (*OFF)[gi]; const G& g = (*GS)[gi]; std::string h = FILL[1 + x % 3]; x /= 3;
    std::string t = h + "Ops" + h + "\n" + "Automaton" + h + "A" + h + "\nStates" + h + "\n" + h + "Final" + h + "States" + h + "q" + h + "\nTransitions" + h + "\n";
    for (size_t i = 0; i <= g.atoms.size(); i++) { bool nl = (i < g.atoms.size() && g.atoms[i] == "\n"); t += FILL[x % 4]; x /= 4; if (i < g.atoms.size()) t += g.atoms[i]; (void)nl; } return t + "\n"; };
  ParallelOpts o; o.stage = stage; o.size = total; o.block = 1024; o.caseTimeout = 5;
  o.describe = [make](uint64_t idx) { size_t gi; return "text: \"" + vis(make(idx, gi)) + "\""; };
  o.run = [make, GS](uint64_t idx, Ctx& c) { size_t gi; std::string t = make(idx, gi); const G& g = (*GS)[gi]; c.evals(); c.nontrivial(); if (c.wantSample() && idx % 5003 == 9) c.sample("\"" + vis(t) + "\"");
    VATA::Parsing::TimbukParser par; VATA::Serialization::TimbukSerializer ser;
    try { AutDescription e = par.ParseString(t); if (!(e == g.want)) { c.viol("ParseString(blank placement)", "final_states_or_rules_differ", {}, "text: \"" + vis(t) + "\"\nwanted: " + descStr(g.want) + "\nparsed: " + descStr(e)); return; }
      if (idx % 16 == 0) {   // the loaders see the parsed description only: every 16th placement is enough to tie them in (the placements differ in the text alone)
        { ExplicitTreeAut a; AutBase::StateDict sd; a.LoadFromString(par, t, sd); AutDescription d1 = par.ParseString(a.DumpToString(ser, sd)); if (!(d1 == g.want)) c.viol("expl/dump(load(blank placement))", "final_states_or_rules_differ", {}, "text: \"" + vis(t) + "\"\ndump: " + descStr(d1)); }
        { BDDBottomUpTreeAut a; AutBase::StateDict sd; a.LoadFromString(par, t, sd); AutDescription d1 = par.ParseString(a.DumpToString(ser, sd)); if (!(d1 == g.want)) c.viol("bdd-bu/dump(load(blank placement))", "final_states_or_rules_differ", {}, "text: \"" + vis(t) + "\"\ndump: " + descStr(d1)); }
        { BDDTopDownTreeAut a; AutBase::StateDict sd; a.LoadFromString(par, t, sd); AutDescription d1 = par.ParseString(a.DumpToString(ser, sd)); if (!(d1 == g.want)) c.viol("bdd-td/dump(load(blank placement))", "final_states_or_rules_differ", {}, "text: \"" + vis(t) + "\"\ndump: " + descStr(d1)); } }
    } catch (std::exception& ex) { c.viol("ParseString(blank placement)", "exception_on_well_formed_text", {}, "text: \"" + vis(t) + "\" " + ex.what()); } };
  env.parallel(o);
}
static Register g1("c13.gaps", "C13", "6 rule lines x every assignment of 4 fillers (none, blank, tab, run of all non-newline isspace characters) to every gap between atoms x 3 header fillers: same description parsed, same dump from the tree loaders", [](Env& e) { gapFill(e, "c13.gaps"); });
static Register d1("c13.bytes.len2", "C13", "ALL byte strings of length 2 (65 536): parser + explicit loader", [](Env& e) { byteStrings(e, "c13.bytes.len2", 2); });
static Register d2("c13.bytes.len3", "C13", "ALL byte strings of length 3 (16.7 M): parser + explicit loader", [](Env& e) { byteStrings(e, "c13.bytes.len3", 3); });
static Register d3("c13.byteedit1", "C13", "every single-byte edit (replace by / insert each of 256 values, delete) of 3 valid templates: parser + four loaders", [](Env& e) { byteEdits(e, "c13.byteedit1"); });
static Register a1("c13.desc.k2", "C13", "all descriptions with <=2 rules over 3 state names x 3 symbols (ranks 0..2) x all final sets x named/anonymous: parse(serialize) and 2 textual variants", [](Env& e) { descRoundTrip(e, "c13.desc.k2", 2); });
static Register a3("c13.desc.names1.k2", "C13", "all descriptions with <=2 rules, state names {q-0, x>y, _} and symbol names {cons-2, a>, -} (a lone '-' or '>' inside a name is legal): parse(serialize) and 3 textual variants", [](Env& e) { descRoundTrip(e, "c13.desc.names1.k2", 2, 1); });
static Register a4("c13.desc.names2.k2", "C13", "all descriptions with <=2 rules, state names {>, States, p.1} and symbol names {Final, +, a-}", [](Env& e) { descRoundTrip(e, "c13.desc.names2.k2", 2, 2); });
static Register a5("c13.desc.names1.k3", "C13", "<=3 rules with the names of names1", [](Env& e) { descRoundTrip(e, "c13.desc.names1.k3", 3, 1); });
static Register a6("c13.desc.names2.k3", "C13", "<=3 rules with the names of names2", [](Env& e) { descRoundTrip(e, "c13.desc.names2.k3", 3, 2); });
static Register a2("c13.desc.k3", "C13", "all descriptions with <=3 rules", [](Env& e) { descRoundTrip(e, "c13.desc.k3", 3); });
static Register b1("c13.enc.tree.n2s2k3", "C13", "every automaton of TA(2,{a:0,b:0,g:2},<=3): dump/load/dump in expl, bdd-bu, bdd-td with state dictionaries", [](Env& e) { encTree(e, "c13.enc.tree.n2s2k3", 2, dom::Sigma2(), 3); });
static Register b2("c13.enc.tree.n3s3pk3", "C13", "every automaton of TA(3,{a:0,f:1,g:2},<=3): dump/load/dump in the three tree encodings", [](Env& e) { encTree(e, "c13.enc.tree.n3s3pk3", 3, dom::Sigma3p(), 3); });
static Register b5("c13.enc.tree.ov.n2k3", "C13", "every automaton of TA(2,{a:0,a:2,b:0},<=3) (one symbol name with two arities): dump/load/dump in the three tree encodings", [](Env& e) { encTree(e, "c13.enc.tree.ov.n2k3", 2, dom::SigmaOv(), 3); });
static Register b6("c13.enc.tree.names.n2k3", "C13", "every automaton of TA(2,{a-:0,b>:0,-:2},<=3) with state names x>0-, x>1- (lone '-' and '>' inside names): dump/load/dump in the three tree encodings", [](Env& e) { encTree(e, "c13.enc.tree.names.n2k3", 2, dom::Alphabet{{0, 0, 2}, {"a-", "b>", "-"}}, 3, true); });
static Register b3("c13.enc.fa.n2l2k3", "C13", "every NFA of FA(2,{a,b},<=3) (also with a second start symbol on a start state): dump/load/dump in expl_fa", [](Env& e) { encFA(e, "c13.enc.fa.n2l2k3", 2, 2, 3); });
static Register b4("c13.enc.fa.n3l2k4", "C13", "every NFA of FA(3,{a,b},<=4): dump/load/dump in expl_fa", [](Env& e) { encFA(e, "c13.enc.fa.n3l2k4", 3, 2, 4); });
static Register c1("c13.text.len3", "C13", "all 21^3 token strings: parser and the four loaders", [](Env& e) { tokenStrings(e, "c13.text.len3", 3); });
static Register c2("c13.text.len4", "C13", "all 21^4 token strings", [](Env& e) { tokenStrings(e, "c13.text.len4", 4); });
static Register c3("c13.text.len5", "C13", "all 21^5 token strings", [](Env& e) { tokenStrings(e, "c13.text.len5", 5); });
static Register c6("c13.text.len6", "C13", "all 21^6 token strings", [](Env& e) { tokenStrings(e, "c13.text.len6", 6); });
static Register c4("c13.edit1", "C13", "every single token edit (delete / duplicate / replace by each of 21 tokens) of 3 valid templates", [](Env& e) { templateEdits(e, "c13.edit1", false); });
static Register c5("c13.edit2", "C13", "every double token edit of 3 valid templates", [](Env& e) { templateEdits(e, "c13.edit2", true); });

}  // namespace c13
