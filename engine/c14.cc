// C14 — ReindexStates / CollapseStates / TranslateSymbols return exactly the image automaton.
#include "runner.hh"
#include "domain.hh"

using namespace verif; using namespace VATA;

namespace c14 {

struct MapF : public AbstractReindexF {
  std::map<size_t, size_t> m;
  AutBase::StateType operator[](const AutBase::StateType& s) override { return m.at(s); }
  AutBase::StateType at(const AutBase::StateType& s) const override { return m.at(s); }
};
struct SymF : public ExplicitTreeAut::AbstractSymbolTranslateF {
  std::map<int, int> m;
  ExplicitTreeAut::SymbolType operator()(const ExplicitTreeAut::SymbolType& s) override { return m.at((int)s); }
};

static void body(Env& env, const std::string& stage, int n, const dom::Alphabet& sig, int k) {
  auto D = std::make_shared<dom::TADomain>(n, sig, k);
  // all maps {0..n-1} -> {0..n-1} plus three sparse/offset injective maps
  std::vector<std::vector<size_t>> maps;
  { std::vector<size_t> m(n, 0); while (true) { maps.push_back(m); int i = 0; while (i < n && ++m[i] == (size_t)n) { m[i] = 0; i++; } if (i == n) break; } }
  { std::vector<size_t> a, b, c2; for (int q = 0; q < n; q++) { a.push_back(7 * q + 3); b.push_back(100 - q); c2.push_back(q + 1); } maps.push_back(a); maps.push_back(b); maps.push_back(c2); }
  int ns = (int)sig.ranks.size();
  std::vector<std::vector<int>> smaps; { std::vector<int> m(ns, 0); while (true) { smaps.push_back(m); int i = 0; while (i < ns && ++m[i] == ns + 1) { m[i] = 0; i++; } if (i == ns) break; } }   // into Sigma + one fresh symbol id ns
  ref::TA X; X.rules.insert({0, {}, 1}); X.rules.insert({ns - 1, std::vector<size_t>(sig.ranks[ns - 1], 1), 0}); X.finals.insert(1);   // pre-filled destination
  dom::forEachTA(env, stage, D, [D, maps, smaps, n, X](const ref::TA& A, size_t idx, Ctx& c) {
    c.evals(); uint64_t w = A.rules.size(); if (A.rules.size() >= 2) c.nontrivial();
    if (c.wantSample() && A.rules.size() >= 3) c.sample(D->str(A));
    ExplicitTreeAut a = dom::build(A);
    auto fail = [&](const std::string& sub, const std::string& cls, const std::string& mapStr, const ref::TA& exp, const ref::TA& got, std::vector<std::string> feats) {
      c.viol(sub, cls, feats, D->str(A) + " | map " + mapStr + " | expected: " + exp.str() + " | got: " + got.str() + "\n--- A (timbuk)\n" + dom::timbuk(A, D->sig, "A"), w); };
    for (auto& mv : maps) {
      std::map<size_t, size_t> m; for (int q = 0; q < n; q++) m[q] = mv[q];
      std::set<size_t> img; for (auto q : A.states()) img.insert(m[q]); bool inj = img.size() == A.states().size();
      std::string ms; for (int q = 0; q < n; q++) ms += std::to_string(q) + "->" + std::to_string(mv[q]) + " ";
      std::vector<std::string> feats = {inj ? "injective" : "merging"};
      ref::TA I = ref::mapStates(A, m);
      c.count(inj ? "maps_injective" : "maps_merging");
      auto cmp = [&](const std::string& sub, const ExplicitTreeAut& r, const ref::TA& expect) {
        ref::TA R = dom::readBack(r);
        if (R != expect) { fail(sub, R.finals != expect.finals ? "final_states_not_the_image" : "rules_not_the_image", ms, expect, R, feats); return; }
        if (dom::countRules(r) != expect.rules.size()) fail(sub, "rule_yielded_twice", ms, expect, R, feats);
      };
      try {
        // (1) weak translator over a pre-filled map
        { AutBase::StateToStateMap sm; for (auto q : A.states()) sm[q] = m[q]; size_t fresh = 1000; AutBase::StateToStateTranslWeak tr(sm, [&fresh](const AutBase::StateType&) { return fresh++; });
          ExplicitTreeAut r = a.ReindexStates(tr); cmp("ReindexStates(weak,prefilled)", r, I);
          if (sm.size() != A.states().size()) fail("ReindexStates(weak,prefilled)", "translator_gained_entries", ms, I, dom::readBack(r), feats); }
        // (2) functor, with and without final states
        { MapF f; f.m = m; ExplicitTreeAut r = a.ReindexStates(f, true); cmp("ReindexStates(functor)", r, I);
          ExplicitTreeAut r2 = a.ReindexStates(f, false); ref::TA I2 = I; I2.finals.clear(); cmp("ReindexStates(functor,nofinal)", r2, I2); }
        // (3) into an empty and into a pre-filled destination
        { MapF f; f.m = m; ExplicitTreeAut d; a.ReindexStates(d, f, true); cmp("ReindexStates(dst=empty)", d, I);
          ExplicitTreeAut d2 = dom::build(X); ExplicitTreeAut keep(d2); a.ReindexStates(d2, f, true); cmp("ReindexStates(dst=prefilled)", d2, ref::plainUnion(X, I));
          if (dom::readBack(keep) != X) fail("ReindexStates(dst=prefilled)", "copy_of_destination_changed", ms, X, dom::readBack(keep), feats); }
        // (4) CollapseStates
        { AutBase::StateToStateMap sm; for (auto q : A.states()) sm[q] = m[q]; ExplicitTreeAut r = a.CollapseStates(sm); cmp("CollapseStates", r, I);
          ref::TA R = dom::readBack(r);
          if (inj) { if (!ref::equalLang(A, R)) fail("CollapseStates", "injective_map_changed_language", ms, I, R, feats); }
          else if (!ref::included(A, R)) fail("CollapseStates", "merging_map_lost_language", ms, I, R, feats); }
        if (dom::readBack(a) != A) fail("ReindexStates", "operand_changed", ms, A, dom::readBack(a), feats);
      } catch (std::exception& e) { c.viol("ReindexStates", "exception", feats, D->str(A) + " | map " + ms + " " + e.what(), w); }
    }
    // (5) weak translator that allocates on demand: afterwards it holds exactly the states of A, injectively
    try { AutBase::StateToStateMap sm; size_t cnt = 0; AutBase::StateToStateTranslWeak tr(sm, [&cnt](const AutBase::StateType&) { return cnt++; });
      ExplicitTreeAut r = a.ReindexStates(tr); std::map<size_t, size_t> m(sm.begin(), sm.end()); std::set<size_t> keys, vals; for (auto& kv : m) { keys.insert(kv.first); vals.insert(kv.second); }
      ref::TA R = dom::readBack(r);
      if (keys != A.states() || vals.size() != keys.size() || cnt != keys.size()) c.viol("ReindexStates(weak,allocating)", "translator_not_exactly_the_states", {}, D->str(A) + " | got: " + R.str(), w);
      else if (R != ref::mapStates(A, m)) c.viol("ReindexStates(weak,allocating)", "rules_not_the_image", {}, D->str(A) + " | got: " + R.str(), w);
    } catch (std::exception& e) { c.viol("ReindexStates(weak,allocating)", "exception", {}, D->str(A) + " " + e.what(), w); }
    // (6) TranslateSymbols, every symbol map into Sigma + 1 fresh symbol
    for (auto& sv : smaps) {
      SymF f; for (size_t s = 0; s < sv.size(); s++) f.m[(int)s] = sv[s];
      ref::TA I; I.finals = A.finals; for (auto r : A.rules) { r.sym = f.m[r.sym]; I.rules.insert(r); }
      std::string ms = "symbols "; for (size_t s = 0; s < sv.size(); s++) ms += std::to_string(s) + "->" + std::to_string(sv[s]) + " ";
      c.count("symbol_maps");
      try { ExplicitTreeAut r = a.TranslateSymbols(f); ref::TA R = dom::readBack(r);
        if (R != I) fail("TranslateSymbols", R.finals != I.finals ? "final_states_not_the_image" : "rules_not_the_image", ms, I, R, {});
        else if (dom::countRules(r) != I.rules.size()) fail("TranslateSymbols", "rule_yielded_twice", ms, I, R, {});
        if (dom::readBack(a) != A) fail("TranslateSymbols", "operand_changed", ms, A, dom::readBack(a), {});
      } catch (std::exception& e) { c.viol("TranslateSymbols", "exception", {}, D->str(A) + " | " + ms + e.what(), w); }
    }
  }, 64);
}

static Register r1("c14.n3s3pk2", "C14", "TA(3,{a:0,f:1,g:2},<=2) x all 27+3 state maps x all 64 symbol maps, all entry points", [](Env& e) { body(e, "c14.n3s3pk2", 3, dom::Sigma3p(), 2); });
static Register r2("c14.n3s3pk3", "C14", "TA(3,{a:0,f:1,g:2},<=3) x all 27+3 state maps x all 64 symbol maps, all entry points", [](Env& e) { body(e, "c14.n3s3pk3", 3, dom::Sigma3p(), 3); });
static Register r3("c14.n2s3k5", "C14", "TA(2,{a:0,b:0,f:1,g:2},<=5) x all 4+3 state maps x all 625 symbol maps", [](Env& e) { body(e, "c14.n2s3k5", 2, dom::Sigma3(), 5); });

static Register r4("c14.n3s3pk4", "C14", "TA(3,{a:0,f:1,g:2},<=4) x all 27+3 state maps x all 64 symbol maps", [](Env& e) { body(e, "c14.n3s3pk4", 3, dom::Sigma3p(), 4); });
static Register r5("c14.n2afhk3", "C14", "TA(2,{a:0,f:1,h:3},<=3) x all 4+3 state maps x all 64 symbol maps (ternary rules)", [](Env& e) { body(e, "c14.n2afhk3", 2, dom::SigmaAFH(), 3); });
}  // namespace c14
