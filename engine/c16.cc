// C16 — LTS simulation engine: greatest simulation inside a given block preorder.
#include "runner.hh"
#include <vata/explicit_lts.hh>
#include <vata/util/binary_relation.hh>
#include <algorithm>
#include <memory>

using namespace verif; using namespace VATA; using VATA::Util::BinaryRelation;

namespace VATA { extern size_t verifLtsCounterRowSize; }   // guarded hook in src/explicit_lts_sim.cc (-DVATA_VERIF)

namespace c16 {

static const size_t ROWS[3] = {0, 1, 2};   // counter row size: 0 = regular (31), 1 and 2 = tiny rows so that small systems span several rows

struct Edge { int q, a, r; };
typedef std::vector<std::vector<bool>> Mat;

// greatest simulation contained in R0, naive fixpoint straight from the definition
static Mat refSim(int n, const std::vector<Edge>& E, Mat S) {
  bool ch = true;
  while (ch) { ch = false;
    for (int q = 0; q < n; q++) for (int r = 0; r < n; r++) if (S[q][r]) { bool ok = true;
      for (auto& e : E) if (e.q == q) { bool f = false; for (auto& g : E) if (g.q == r && g.a == e.a && S[e.r][g.r]) { f = true; break; } if (!f) { ok = false; break; } }
      if (!ok) { S[q][r] = false; ch = true; } } }
  return S;
}

struct Combo { std::vector<int> part; int m; Mat rel; };

static std::vector<Combo> combos(int n, int maxBlocks) {
  std::vector<std::vector<int>> parts; std::vector<int> g(n, 0);
  std::function<void(int, int)> rec = [&](int i, int mx) { if (i == n) { parts.push_back(g); return; } for (int b = 0; b <= mx + 1; b++) { g[i] = b; rec(i + 1, std::max(mx, b)); } };
  rec(1, 0);
  std::map<int, std::vector<Mat>> PO;
  for (int m = 1; m <= std::min(n, maxBlocks); m++) { int bits = m * m;
    for (unsigned x = 0; x < (1u << bits); x++) { Mat R(m, std::vector<bool>(m)); for (int i = 0; i < m; i++) for (int j = 0; j < m; j++) R[i][j] = x >> (i * m + j) & 1;
      bool ok = true; for (int i = 0; i < m; i++) if (!R[i][i]) ok = false;
      for (int i = 0; i < m && ok; i++) for (int j = 0; j < m; j++) for (int k = 0; k < m; k++) if (R[i][j] && R[j][k] && !R[i][k]) ok = false;
      if (ok) PO[m].push_back(R); } }
  std::vector<Combo> out;
  for (auto& p : parts) { int m = 0; for (int b : p) m = std::max(m, b + 1); if (m > maxBlocks) continue; for (auto& R : PO[m]) out.push_back({p, m, R}); }
  return out;
}

static std::string show(int n, const std::vector<Edge>& E, const Combo* cb, int out) {
  std::string s = "states=" + std::to_string(n) + " edges:"; for (auto& e : E) s += " " + std::to_string(e.q) + "-" + std::to_string(e.a) + "->" + std::to_string(e.r);
  if (cb) { s += " partition:"; for (int b : cb->part) s += std::to_string(b); s += " block-preorder:"; for (int i = 0; i < cb->m; i++) { for (int j = 0; j < cb->m; j++) s += cb->rel[i][j] ? '1' : '0'; s += '/'; } }
  return s + " outputSize=" + std::to_string(out);
}
static std::string mat(const Mat& M, int k) { std::string s; for (int i = 0; i < k; i++) { for (int j = 0; j < k; j++) s += M[i][j] ? '1' : '0'; s += '/'; } return s; }

static void body(Env& env, const std::string& stage, int n, int L, int K, int maxBlocks, int dupUpTo) {
  std::vector<Edge> U; for (int q = 0; q < n; q++) for (int a = 0; a < L; a++) for (int r = 0; r < n; r++) U.push_back({q, a, r});
  auto items = std::make_shared<std::vector<std::vector<int>>>();
  { std::vector<int> pick; std::function<void(size_t, int)> rec = [&](size_t from, int left) { items->push_back(pick); if (!left) return; for (size_t i = from; i < U.size(); i++) { pick.push_back((int)i); rec(i + 1, left - 1); pick.pop_back(); } }; rec(0, K); }
  std::stable_sort(items->begin(), items->end(), [](const std::vector<int>& a, const std::vector<int>& b) { return a.size() < b.size(); });
  size_t plain = items->size();
  for (size_t i = 0; i < plain; i++) { auto it = (*items)[i]; if ((int)it.size() > dupUpTo) continue; for (size_t d = 0; d < it.size(); d++) { auto x = it; x.push_back(it[d]); items->push_back(x); } }   // one edge inserted twice
  auto CB = std::make_shared<std::vector<Combo>>(combos(n, maxBlocks));
  env.noteNum(stage + ".systems", items->size()); env.noteNum(stage + ".systems_with_parallel_edge", items->size() - plain); env.noteNum(stage + ".partition_preorder_pairs", CB->size());
  ParallelOpts o; o.stage = stage; o.size = items->size(); o.block = 8; o.caseTimeout = 30;
  auto UU = std::make_shared<std::vector<Edge>>(U);
  o.describe = [items, UU, n](uint64_t i) { std::vector<Edge> E; for (int x : (*items)[i]) E.push_back((*UU)[x]); return show(n, E, nullptr, n); };
  o.run = [items, UU, CB, n, plain](uint64_t idx, Ctx& c) {
    std::vector<Edge> E; for (int x : (*items)[idx]) E.push_back((*UU)[x]);
    uint64_t w = E.size();
    bool par = idx >= plain; std::vector<std::string> feats; if (par) feats.push_back("parallel_edge");
    if (c.wantSample() && E.size() >= 3) c.sample(show(n, E, &(*CB)[CB->size() / 2], n));
    auto mk = [&]() { std::unique_ptr<ExplicitLTS> l(new ExplicitLTS(n)); for (auto& e : E) l->addTransition(e.q, e.a, e.r); l->init(); return l; };
    // partition-free entries
    for (size_t row : ROWS) { VATA::verifLtsCounterRowSize = row; Mat all(n, std::vector<bool>(n, true)); Mat S = refSim(n, E, all); std::vector<std::string> feats2 = feats; if (row) feats2.push_back("tiny_counter_rows");
      for (int out = 0; out <= n + 1; out++) { c.evals();
        try { auto l = mk(); BinaryRelation res = out == n + 1 ? l->computeSimulation() : l->computeSimulation((size_t)out); int k = out == n + 1 ? n : out;
          bool bad = (int)res.size() != k; Mat G(k, std::vector<bool>(k)); if (!bad) for (int q = 0; q < k; q++) for (int r = 0; r < k; r++) { G[q][r] = res.get(q, r); if (G[q][r] != S[q][r]) bad = true; }
          if (bad) c.viol("computeSimulation(size)", (int)res.size() != k ? "wrong_result_size" : "relation_differs", feats2, show(n, E, nullptr, out) + " rowSize=" + std::to_string(row) + " expected=" + mat(S, k) + " got=" + ((int)res.size() == k ? mat(G, k) : "size " + std::to_string(res.size())), w);
        } catch (std::exception& e) { c.viol("computeSimulation(size)", "exception", feats2, show(n, E, nullptr, out) + " " + e.what(), w); } } }
    VATA::verifLtsCounterRowSize = 0;
    for (auto& cb : *CB) {
      Mat R0(n, std::vector<bool>(n)); for (int q = 0; q < n; q++) for (int r = 0; r < n; r++) R0[q][r] = cb.rel[cb.part[q]][cb.part[r]];
      Mat S = refSim(n, E, R0);
      bool nontriv = false; for (int q = 0; q < n; q++) for (int r = 0; r < n; r++) if (q != r && (S[q][r] || (R0[q][r] && !S[q][r]))) nontriv = true;
      std::vector<std::vector<size_t>> part(cb.m); for (int s = 0; s < n; s++) part[cb.part[s]].push_back(s);
      BinaryRelation rel(cb.m); for (int i = 0; i < cb.m; i++) for (int j = 0; j < cb.m; j++) rel.set(i, j, cb.rel[i][j]);
      for (int out = 1; out <= n; out++) for (size_t row : ROWS) {
        VATA::verifLtsCounterRowSize = row; std::vector<std::string> feats2 = feats; if (row) feats2.push_back("tiny_counter_rows");
        c.evals(); if (nontriv && E.size() >= 1) c.nontrivial();
        bool pruned = false; for (int q = 0; q < out; q++) for (int r = 0; r < out; r++) if (R0[q][r] && !S[q][r]) pruned = true; c.count(pruned ? "relation_pruned" : "relation_kept");
        try { auto l = mk(); BinaryRelation res = l->computeSimulation(part, rel, (size_t)out);
          bool bad = (int)res.size() != out; Mat G(out, std::vector<bool>(out)); if (!bad) for (int q = 0; q < out; q++) for (int r = 0; r < out; r++) { G[q][r] = res.get(q, r); if (G[q][r] != S[q][r]) bad = true; } if ((int)res.size() == out) verif::obs(mat(G, out));
          if (bad) { bool big = false, small = false; if ((int)res.size() == out) for (int q = 0; q < out; q++) for (int r = 0; r < out; r++) { if (G[q][r] && !S[q][r]) big = true; if (!G[q][r] && S[q][r]) small = true; }
            c.viol("computeSimulation(partition,relation,size)", (int)res.size() != out ? "wrong_result_size" : big && small ? "relation_differs_both_ways" : big ? "relation_too_big" : "relation_too_small", feats2,
                   show(n, E, &cb, out) + " rowSize=" + std::to_string(row) + " expected=" + mat(S, out) + " got=" + ((int)res.size() == out ? mat(G, out) : "size " + std::to_string(res.size())), w); }
        } catch (std::exception& e) { c.viol("computeSimulation(partition,relation,size)", "exception", feats2, show(n, E, &cb, out) + " " + e.what(), w); }
      }
    }
    VATA::verifLtsCounterRowSize = 0;
  };
  env.parallel(o);
}


// ---- structured family of LARGER systems (17..40 states) that crosses the size thresholds hidden in the data structures with their REAL constants
// (BinaryRelation row capacity 16 / next power of two, SharedCounter rows of 31, SmartSet): every system built from one edge template per label,
// x a few partitions / block preorders x EVERY output size 1..n.  Exhaustive over this finite family, no sampling.
static std::vector<Edge> templ(int t, int a, int n) { std::vector<Edge> E; switch (t) { case 0: break; case 1: for (int q = 0; q < n; q++) E.push_back({q, a, 0}); break; case 2: for (int q = 0; q < n; q++) E.push_back({q, a, n - 1}); break;
    case 3: for (int q = 1; q < n; q++) E.push_back({q, a, 16 % n}); break; case 4: for (int q = 0; q + 1 < n; q++) E.push_back({q, a, q + 1}); break; case 5: for (int q = 0; q < n; q++) E.push_back({q, a, q}); break;
    case 6: for (int q = 1; q < n; q += 2) E.push_back({q, a, 0}); break; case 7: for (int q = 0; q < n; q++) E.push_back({q, a, (q * 7 + 3) % n}); break; default: for (int q = 0; q < n; q++) { E.push_back({q, a, (q + 1) % n}); E.push_back({q, a, (q + 2) % n}); } } return E; }
static void family(Env& env, const std::string& stage, std::vector<int> sizes) {
  const int NT = 9; struct Case { int n, t0, t1, part, pre; }; auto cases = std::make_shared<std::vector<Case>>();
  for (int n : sizes) for (int t0 = 0; t0 < NT; t0++) for (int t1 = 0; t1 < NT; t1++) for (int part = 0; part < 3; part++) for (int pre = 0; pre < (part == 0 ? 1 : 4); pre++) cases->push_back({n, t0, t1, part, pre});
  env.noteNum(stage + ".systems_x_partitions", cases->size());
  ParallelOpts o; o.stage = stage; o.size = cases->size(); o.block = 4; o.caseTimeout = 120;
  o.describe = [cases](uint64_t i) { const Case& k = (*cases)[i]; return "n=" + std::to_string(k.n) + " template(label0)=" + std::to_string(k.t0) + " template(label1)=" + std::to_string(k.t1) + " partition#" + std::to_string(k.part) + " preorder#" + std::to_string(k.pre); };
  o.run = [cases](uint64_t idx, Ctx& c) { const Case& k = (*cases)[idx]; int n = k.n; std::vector<Edge> E = templ(k.t0, 0, n); { auto e1 = templ(k.t1, 1, n); E.insert(E.end(), e1.begin(), e1.end()); }
    // partitions: 0 = one block; 1 = even/odd; 2 = {state 16 % n} alone.  preorders on 2 blocks: the 4 reflexive transitive ones
    std::vector<int> blk(n, 0); int m = 1; if (k.part == 1) { for (int q = 0; q < n; q++) blk[q] = q & 1; m = 2; } else if (k.part == 2) { blk[16 % n] = 1; m = 2; }
    Mat R(m, std::vector<bool>(m, false)); for (int i = 0; i < m; i++) R[i][i] = true; if (m == 2) { if (k.pre & 1) R[0][1] = true; if (k.pre & 2) R[1][0] = true; }
    Mat R0(n, std::vector<bool>(n)); for (int q = 0; q < n; q++) for (int r = 0; r < n; r++) R0[q][r] = R[blk[q]][blk[r]]; Mat S = refSim(n, E, R0);
    std::vector<std::vector<size_t>> part(m); for (int q = 0; q < n; q++) part[blk[q]].push_back(q); BinaryRelation rel(m); for (int i = 0; i < m; i++) for (int j = 0; j < m; j++) rel.set(i, j, R[i][j]);
    std::string what = "n=" + std::to_string(n) + " label0 template " + std::to_string(k.t0) + ", label1 template " + std::to_string(k.t1) + ", partition#" + std::to_string(k.part) + ", block preorder#" + std::to_string(k.pre);
    if (c.wantSample() && idx % 37 == 5) c.sample(what);
    for (int out = 1; out <= n; out++) { c.evals(); c.nontrivial(); c.count(out == 16 ? "output_size_16" : out > 16 ? "output_size_above_16" : "output_size_below_16");
      try { ExplicitLTS l(n); for (auto& e : E) l.addTransition(e.q, e.a, e.r); l.init(); BinaryRelation res = l.computeSimulation(part, rel, (size_t)out);
        bool bad = (int)res.size() != out; std::string diff; if (!bad) for (int q = 0; q < out && !bad; q++) for (int r = 0; r < out; r++) if (res.get(q, r) != S[q][r]) { bad = true; diff = "entry (" + std::to_string(q) + "," + std::to_string(r) + ") is " + std::to_string(res.get(q, r)) + ", expected " + std::to_string(S[q][r]); break; }
        if (bad) { c.viol("computeSimulation(partition,relation,size)/large family", (int)res.size() != out ? "wrong_result_size" : "relation_differs", {"output_size_" + std::to_string(out)}, what + " outputSize=" + std::to_string(out) + ": " + diff, (uint64_t)n); break; }
        if (k.part == 0) { ExplicitLTS l2(n); for (auto& e : E) l2.addTransition(e.q, e.a, e.r); l2.init(); BinaryRelation r2 = l2.computeSimulation((size_t)out); bool b2 = (int)r2.size() != out; if (!b2) for (int q = 0; q < out && !b2; q++) for (int r = 0; r < out; r++) if (r2.get(q, r) != S[q][r]) { b2 = true; break; }
          if (b2) { c.viol("computeSimulation(size)/large family", "relation_differs", {"output_size_" + std::to_string(out)}, what + " outputSize=" + std::to_string(out), (uint64_t)n); break; } }
      } catch (std::exception& e) { c.viol("computeSimulation/large family", "exception", {}, what + " " + e.what(), (uint64_t)n); break; } } };
  env.parallel(o);
}
static Register f1("c16.family.n17n20", "C16", "structured family: 17 and 20 states, 2 labels x 9 edge templates each x 3 partitions x block preorders x EVERY output size (crosses the capacity-16 threshold of BinaryRelation)", [](Env& e) { family(e, "c16.family.n17n20", {17, 20}); });
static Register f2("c16.family.n33n40", "C16", "structured family: 33 and 40 states (crosses 32-entry thresholds: counter rows of 31, relation capacity 32)", [](Env& e) { family(e, "c16.family.n33n40", {33, 40}); });
static Register f4("c16.family.n65n130", "C16", "structured family: 65 and 130 states (partition grows across 64 and 128 blocks: vector<bool> word boundaries)", [](Env& e) { family(e, "c16.family.n65n130", {65, 130}); });
static Register f3("c16.family.n65", "C16", "structured family: 65 states", [](Env& e) { family(e, "c16.family.n65", {65}); });

#define REG(var, name, n, L, K, mb, dup, txt) static Register var(name, "C16", txt, [](Env& e) { body(e, name, n, L, K, mb, dup); });
REG(r1, "c16.n3l2k4", 3, 2, 4, 3, 3, "LTS(3 states,2 labels,<=4 edges; <=3 edges also with one parallel edge) x all partitions x all block preorders x all output sizes")
REG(r2, "c16.n3l2k5", 3, 2, 5, 3, 3, "LTS(3,2,<=5 edges; parallel edges up to 3) x all partitions x all block preorders x all output sizes")
REG(r3, "c16.n4l1k4b3", 4, 1, 4, 3, 3, "LTS(4,1,<=4 edges) x partitions of <=3 blocks x all block preorders x all output sizes")
REG(r4, "c16.n3l2k7", 3, 2, 7, 3, 4, "LTS(3,2,<=7 edges; parallel up to 4)")
REG(r5, "c16.n4l1k6", 4, 1, 6, 4, 3, "LTS(4,1,<=6 edges) x all 15 partitions x all block preorders (355 on 4 blocks)")
REG(r6, "c16.n4l2k4b3", 4, 2, 4, 3, 2, "LTS(4,2,<=4 edges) x partitions of <=3 blocks")
REG(r7, "c16.n3l3k4", 3, 3, 4, 3, 2, "LTS(3,3 labels,<=4 edges)")

REG(r8, "c16.n3l2all", 3, 2, 18, 3, 3, "ALL LTSs with 3 states and 2 labels (2^18 edge sets; parallel edges up to 3)")
REG(r9, "c16.n4l1all", 4, 1, 16, 4, 3, "ALL LTSs with 4 states and 1 label (2^16 edge sets) x all 15 partitions x all block preorders")
REG(r10, "c16.n3l3k5", 3, 3, 5, 3, 2, "LTS(3,3 labels,<=5 edges)")
REG(r11, "c16.n4l2k5b3", 4, 2, 5, 3, 2, "LTS(4,2,<=5 edges) x partitions of <=3 blocks")
REG(r12, "c16.n5l1k5b3", 5, 1, 5, 3, 2, "LTS(5,1,<=5 edges) x partitions of <=3 blocks")
REG(r13, "c16.n4l2k3b3", 4, 2, 3, 3, 2, "LTS(4,2,<=3 edges) x partitions of <=3 blocks")
}  // namespace c16
