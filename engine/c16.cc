// C16 — LTS simulation engine: greatest simulation inside a given block preorder.
#include "runner.hh"
#include <vata/explicit_lts.hh>
#include <vata/util/binary_relation.hh>
#include <algorithm>
#include <memory>

using namespace verif; using namespace VATA; using VATA::Util::BinaryRelation;

namespace VATA { extern size_t verifLtsCounterRowSize; }   // guarded hook in src/explicit_lts_sim.cc (-DVATA_VERIF)

namespace c16 {

static const size_t ROWS[3] = {0, 1, 2};   // counter row size: 0 = regular (31), 1 and 2 = tiny rows so that small systems span several rows

struct Edge { int q, a, r; };
typedef std::vector<std::vector<bool>> Mat;

// greatest simulation contained in R0, naive fixpoint straight from the definition
static Mat refSim(int n, const std::vector<Edge>& E, Mat S) {
  bool ch = true;
  while (ch) { ch = false;
    for (int q = 0; q < n; q++) for (int r = 0; r < n; r++) if (S[q][r]) { bool ok = true;
      for (auto& e : E) if (e.q == q) { bool f = false; for (auto& g : E) if (g.q == r && g.a == e.a && S[e.r][g.r]) { f = true; break; } if (!f) { ok = false; break; } }
      if (!ok) { S[q][r] = false; ch = true; } } }
  return S;
}

struct Combo { std::vector<int> part; int m; Mat rel; };

static std::vector<Combo> combos(int n, int maxBlocks) {
  std::vector<std::vector<int>> parts; std::vector<int> g(n, 0);
  std::function<void(int, int)> rec = [&](int i, int mx) { if (i == n) { parts.push_back(g); return; } for (int b = 0; b <= mx + 1; b++) { g[i] = b; rec(i + 1, std::max(mx, b)); } };
  rec(1, 0);
  std::map<int, std::vector<Mat>> PO;
  for (int m = 1; m <= std::min(n, maxBlocks); m++) { int bits = m * m;
    for (unsigned x = 0; x < (1u << bits); x++) { Mat R(m, std::vector<bool>(m)); for (int i = 0; i < m; i++) for (int j = 0; j < m; j++) R[i][j] = x >> (i * m + j) & 1;
      bool ok = true; for (int i = 0; i < m; i++) if (!R[i][i]) ok = false;
      for (int i = 0; i < m && ok; i++) for (int j = 0; j < m; j++) for (int k = 0; k < m; k++) if (R[i][j] && R[j][k] && !R[i][k]) ok = false;
      if (ok) PO[m].push_back(R); } }
  std::vector<Combo> out;
  for (auto& p : parts) { int m = 0; for (int b : p) m = std::max(m, b + 1); if (m > maxBlocks) continue; for (auto& R : PO[m]) out.push_back({p, m, R}); }
  return out;
}

static std::string show(int n, const std::vector<Edge>& E, const Combo* cb, int out) {
  std::string s = "states=" + std::to_string(n) + " edges:"; for (auto& e : E) s += " " + std::to_string(e.q) + "-" + std::to_string(e.a) + "->" + std::to_string(e.r);
  if (cb) { s += " partition:"; for (int b : cb->part) s += std::to_string(b); s += " block-preorder:"; for (int i = 0; i < cb->m; i++) { for (int j = 0; j < cb->m; j++) s += cb->rel[i][j] ? '1' : '0'; s += '/'; } }
  return s + " outputSize=" + std::to_string(out);
}
static std::string mat(const Mat& M, int k) { std::string s; for (int i = 0; i < k; i++) { for (int j = 0; j < k; j++) s += M[i][j] ? '1' : '0'; s += '/'; } return s; }

static void body(Env& env, const std::string& stage, int n, int L, int K, int maxBlocks, int dupUpTo) {
  std::vector<Edge> U; for (int q = 0; q < n; q++) for (int a = 0; a < L; a++) for (int r = 0; r < n; r++) U.push_back({q, a, r});
  auto items = std::make_shared<std::vector<std::vector<int>>>();
  { std::vector<int> pick; std::function<void(size_t, int)> rec = [&](size_t from, int left) { items->push_back(pick); if (!left) return; for (size_t i = from; i < U.size(); i++) { pick.push_back((int)i); rec(i + 1, left - 1); pick.pop_back(); } }; rec(0, K); }
  std::stable_sort(items->begin(), items->end(), [](const std::vector<int>& a, const std::vector<int>& b) { return a.size() < b.size(); });
  size_t plain = items->size();
  for (size_t i = 0; i < plain; i++) { auto it = (*items)[i]; if ((int)it.size() > dupUpTo) continue; for (size_t d = 0; d < it.size(); d++) { auto x = it; x.push_back(it[d]); items->push_back(x); } }   // one edge inserted twice
  auto CB = std::make_shared<std::vector<Combo>>(combos(n, maxBlocks));
  env.noteNum(stage + ".systems", items->size()); env.noteNum(stage + ".systems_with_parallel_edge", items->size() - plain); env.noteNum(stage + ".partition_preorder_pairs", CB->size());
  ParallelOpts o; o.stage = stage; o.size = items->size(); o.block = 8; o.caseTimeout = 30;
  auto UU = std::make_shared<std::vector<Edge>>(U);
  o.describe = [items, UU, n](uint64_t i) { std::vector<Edge> E; for (int x : (*items)[i]) E.push_back((*UU)[x]); return show(n, E, nullptr, n); };
  o.run = [items, UU, CB, n, plain](uint64_t idx, Ctx& c) {
    std::vector<Edge> E; for (int x : (*items)[idx]) E.push_back((*UU)[x]);
    uint64_t w = E.size();
    bool par = idx >= plain; std::vector<std::string> feats; if (par) feats.push_back("parallel_edge");
    if (c.wantSample() && E.size() >= 3) c.sample(show(n, E, &(*CB)[CB->size() / 2], n));
    auto mk = [&]() { std::unique_ptr<ExplicitLTS> l(new ExplicitLTS(n)); for (auto& e : E) l->addTransition(e.q, e.a, e.r); l->init(); return l; };
    // partition-free entries
    for (size_t row : ROWS) { VATA::verifLtsCounterRowSize = row; Mat all(n, std::vector<bool>(n, true)); Mat S = refSim(n, E, all); std::vector<std::string> feats2 = feats; if (row) feats2.push_back("tiny_counter_rows");
      for (int out = 0; out <= n + 1; out++) { c.evals();
        try { auto l = mk(); BinaryRelation res = out == n + 1 ? l->computeSimulation() : l->computeSimulation((size_t)out); int k = out == n + 1 ? n : out;
          bool bad = (int)res.size() != k; Mat G(k, std::vector<bool>(k)); if (!bad) for (int q = 0; q < k; q++) for (int r = 0; r < k; r++) { G[q][r] = res.get(q, r); if (G[q][r] != S[q][r]) bad = true; }
          if (bad) c.viol("computeSimulation(size)", (int)res.size() != k ? "wrong_result_size" : "relation_differs", feats2, show(n, E, nullptr, out) + " rowSize=" + std::to_string(row) + " expected=" + mat(S, k) + " got=" + ((int)res.size() == k ? mat(G, k) : "size " + std::to_string(res.size())), w);
        } catch (std::exception& e) { c.viol("computeSimulation(size)", "exception", feats2, show(n, E, nullptr, out) + " " + e.what(), w); } } }
    VATA::verifLtsCounterRowSize = 0;
    for (auto& cb : *CB) {
      Mat R0(n, std::vector<bool>(n)); for (int q = 0; q < n; q++) for (int r = 0; r < n; r++) R0[q][r] = cb.rel[cb.part[q]][cb.part[r]];
      Mat S = refSim(n, E, R0);
      bool nontriv = false; for (int q = 0; q < n; q++) for (int r = 0; r < n; r++) if (q != r && (S[q][r] || (R0[q][r] && !S[q][r]))) nontriv = true;
      std::vector<std::vector<size_t>> part(cb.m); for (int s = 0; s < n; s++) part[cb.part[s]].push_back(s);
      BinaryRelation rel(cb.m); for (int i = 0; i < cb.m; i++) for (int j = 0; j < cb.m; j++) rel.set(i, j, cb.rel[i][j]);
      for (int out = 1; out <= n; out++) for (size_t row : ROWS) {
        VATA::verifLtsCounterRowSize = row; std::vector<std::string> feats2 = feats; if (row) feats2.push_back("tiny_counter_rows");
        c.evals(); if (nontriv && E.size() >= 1) c.nontrivial();
        bool pruned = false; for (int q = 0; q < out; q++) for (int r = 0; r < out; r++) if (R0[q][r] && !S[q][r]) pruned = true; c.count(pruned ? "relation_pruned" : "relation_kept");
        try { auto l = mk(); BinaryRelation res = l->computeSimulation(part, rel, (size_t)out);
          bool bad = (int)res.size() != out; Mat G(out, std::vector<bool>(out)); if (!bad) for (int q = 0; q < out; q++) for (int r = 0; r < out; r++) { G[q][r] = res.get(q, r); if (G[q][r] != S[q][r]) bad = true; } if ((int)res.size() == out) verif::obs(mat(G, out));
          if (bad) { bool big = false, small = false; if ((int)res.size() == out) for (int q = 0; q < out; q++) for (int r = 0; r < out; r++) { if (G[q][r] && !S[q][r]) big = true; if (!G[q][r] && S[q][r]) small = true; }
            c.viol("computeSimulation(partition,relation,size)", (int)res.size() != out ? "wrong_result_size" : big && small ? "relation_differs_both_ways" : big ? "relation_too_big" : "relation_too_small", feats2,
                   show(n, E, &cb, out) + " rowSize=" + std::to_string(row) + " expected=" + mat(S, out) + " got=" + ((int)res.size() == out ? mat(G, out) : "size " + std::to_string(res.size())), w); }
        } catch (std::exception& e) { c.viol("computeSimulation(partition,relation,size)", "exception", feats2, show(n, E, &cb, out) + " " + e.what(), w); }
      }
    }
    VATA::verifLtsCounterRowSize = 0;
  };
  env.parallel(o);
}

#define REG(var, name, n, L, K, mb, dup, txt) static Register var(name, "C16", txt, [](Env& e) { body(e, name, n, L, K, mb, dup); });
REG(r1, "c16.n3l2k4", 3, 2, 4, 3, 3, "LTS(3 states,2 labels,<=4 edges; <=3 edges also with one parallel edge) x all partitions x all block preorders x all output sizes")
REG(r2, "c16.n3l2k5", 3, 2, 5, 3, 3, "LTS(3,2,<=5 edges; parallel edges up to 3) x all partitions x all block preorders x all output sizes")
REG(r3, "c16.n4l1k4b3", 4, 1, 4, 3, 3, "LTS(4,1,<=4 edges) x partitions of <=3 blocks x all block preorders x all output sizes")
REG(r4, "c16.n3l2k7", 3, 2, 7, 3, 4, "LTS(3,2,<=7 edges; parallel up to 4)")
REG(r5, "c16.n4l1k6", 4, 1, 6, 4, 3, "LTS(4,1,<=6 edges) x all 15 partitions x all block preorders (355 on 4 blocks)")
REG(r6, "c16.n4l2k4b3", 4, 2, 4, 3, 2, "LTS(4,2,<=4 edges) x partitions of <=3 blocks")
REG(r7, "c16.n3l3k4", 3, 3, 4, 3, 2, "LTS(3,3 labels,<=4 edges)")

REG(r8, "c16.n3l2all", 3, 2, 18, 3, 3, "ALL LTSs with 3 states and 2 labels (2^18 edge sets; parallel edges up to 3)")
REG(r9, "c16.n4l1all", 4, 1, 16, 4, 3, "ALL LTSs with 4 states and 1 label (2^16 edge sets) x all 15 partitions x all block preorders")
REG(r10, "c16.n3l3k5", 3, 3, 5, 3, 2, "LTS(3,3 labels,<=5 edges)")
REG(r11, "c16.n4l2k5b3", 4, 2, 5, 3, 2, "LTS(4,2,<=5 edges) x partitions of <=3 blocks")
REG(r12, "c16.n5l1k5b3", 5, 1, 5, 3, 2, "LTS(5,1,<=5 edges) x partitions of <=3 blocks")
REG(r13, "c16.n4l2k3b3", 4, 2, 3, 3, 2, "LTS(4,2,<=3 edges) x partitions of <=3 blocks")
}  // namespace c16
