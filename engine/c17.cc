// C17 — MTBDD operations are pointwise correct, representations canonical.  E-ENUM over small variable counts.
#include "runner.hh"
#include <vata/vata.hh>
#include <vata/sym_var_asgn.hh>
#include "mtbdd/ondriks_mtbdd.hh"
#include "mtbdd/apply1func.hh"
#include "mtbdd/apply2func.hh"
#include "mtbdd/apply3func.hh"
#include "mtbdd/void_apply1func.hh"
#include "mtbdd/void_apply2func.hh"
#include <map>
#include <memory>
#include <set>

using namespace verif; using namespace VATA; using namespace VATA::MTBDDPkg;

namespace c17 {

typedef OndriksMTBDD<int> M;
typedef std::vector<int> Tab;
static const int NV = 3;    // values 0..2

static int op2(int k, int a, int b) { switch (k) { case 0: return (a + b) % 3; case 1: return a > b ? a : b; case 2: return (2 * a + b) % 3; default: return 1; } }
static int op1(int k, int a) { switch (k) { case 0: return (a + 1) % 3; case 1: return a ? 0 : 2; default: return 2; } }
static int op3(int k, int a, int b, int c) { return k == 0 ? (a + 2 * b + c) % 3 : (a == 0 ? b : c); }
static const char* OP2N[4] = {"(a+b)%3", "max", "(2a+b)%3", "const1"};

struct Op2 : public Apply2Functor<Op2, int, int, int> { int k; Op2(int k_) : k(k_) {} int ApplyOperation(const int& a, const int& b) { return op2(k, a, b); } };
struct Op1 : public Apply1Functor<Op1, int, int> { int k; Op1(int k_) : k(k_) {} int ApplyOperation(const int& a) { return op1(k, a); } };
struct Op3 : public Apply3Functor<Op3, int, int, int, int> { int k; Op3(int k_) : k(k_) {} int ApplyOperation(const int& a, const int& b, const int& c) { return op3(k, a, b, c); } };
struct MaxF : public Apply2Functor<MaxF, int, int, int> { int ApplyOperation(const int& a, const int& b) { return a > b ? a : b; } };
struct MinF : public Apply2Functor<MinF, int, int, int> { int ApplyOperation(const int& a, const int& b) { return a < b ? a : b; } };
struct V1 : public VoidApply1Functor<V1, int> { std::multiset<int> seen; void ApplyOperation(const int& a) { seen.insert(a); } };
struct V2 : public VoidApply2Functor<V2, int, int> { std::multiset<std::pair<int, int>> seen; void ApplyOperation(const int& a, const int& b) { seen.insert({a, b}); } };

// Layout: the V logical variables of a domain may sit at chosen PHYSICAL positions of a wider assignment (all other positions don't care), so that the same
// exhaustive domains also cross the byte boundaries of SymbolicVarAsgn's packed storage (8 variables per char).  W == 0: the identity layout (V variables, positions 0..V-1).
struct Layout { int id = 0, W = 0; std::vector<int> pos; };
static Layout LAY;
static std::string phys(const std::string& s) { if (!LAY.W) return s; std::string r(LAY.W, 'X'); for (size_t k = 0; k < s.size(); k++) r[LAY.pos[k]] = s[k]; return r; }
static Tab table(const M& m, int V) { Tab t; for (int x = 0; x < (1 << V); x++) {
    if (!LAY.W) { SymbolicVarAsgn a(V, x); t.push_back(m.GetValue(a)); continue; }
    int got[2]; for (int fill = 0; fill < 2; fill++) { std::string s(LAY.W, fill ? '1' : '0'); for (int k = 0; k < V; k++) s[LAY.pos[k]] = (x >> k & 1) ? '1' : '0'; got[fill] = m.GetValue(SymbolicVarAsgn(s)); }
    t.push_back(got[0] == got[1] ? got[0] : -1 - got[0]);   // a value that depends on a don't-care position can equal no expected table
  } return t; }
static std::string tstr(const Tab& t) { std::string s; for (int v : t) s += v < 0 ? '?' : char('0' + v); return s; }
static std::string cubeStr(int code, int V) { std::string s; for (int i = 0; i < V; i++) { s += "01X"[code % 3]; code /= 3; } return s; }
static Tab cubeTab(const std::string& s, int v, int d) { int V = (int)s.size(); Tab t; for (int x = 0; x < (1 << V); x++) { bool m = true; for (int i = 0; i < V; i++) { int bit = x >> i & 1; if (s[i] == '0' && bit) m = false; if (s[i] == '1' && !bit) m = false; } t.push_back(m ? v : d); } return t; }

// per-process world: canonical representative per (V, table); persists over all cases a worker executes, so that
// canonicity is checked across the whole construction history of the process-wide node store
struct World {
  std::map<std::pair<int, Tab>, std::unique_ptr<M>> canon;
  void check(Ctx& c, const M& r, const Tab& expect, int V, const std::string& sub, const std::string& what) {
    Tab got = table(r, V); verif::obs(tstr(got));
    if (got != expect) { c.viol(sub, "wrong_value_for_some_assignment", {}, what + " expected table " + tstr(expect) + " got " + tstr(got)); return; }
    auto& slot = canon[{V + 1000 * LAY.id, expect}];
    if (!slot) slot.reset(new M(r)); else if (!(*slot == r) || (*slot != r)) c.viol(sub, "two_diagrams_for_one_function", {}, what + " table " + tstr(expect) + ": operator== is false for two diagrams denoting the same function");
    else if (!LAY.W) {   // assignment over an object that already holds an EQUAL diagram (possibly built with another default value) must still make it behave as the source in
      // every later operation: the prefix extension of the target must read like the prefix extension of the source where the prefix does not match (= the default value)
      M t(*slot); t = r; bool same = t.GetDefaultValue() == r.GetDefaultValue();
      if (same) { M e1 = t.ExtendWith(SymbolicVarAsgn("1"), (size_t)V), e2 = r.ExtendWith(SymbolicVarAsgn("1"), (size_t)V); for (int x = 0; x < (1 << (V + 1)) && same; x++) { SymbolicVarAsgn a(V + 1, x); if (e1.GetValue(a) != e2.GetValue(a)) same = false; } }
      if (!same) c.viol(sub, "assignment_over_an_equal_diagram_does_not_take_the_source_over", {}, what + ": after `t = r` (t held an equal diagram with default " + std::to_string(slot->GetDefaultValue()) + ", r has default " + std::to_string(r.GetDefaultValue()) + ") t extends differently from r");
    }
  }
};
static World& W() { static World w; return w; }

// the base: all single-cube diagrams over V variables and the constants
struct Base { int V; std::vector<std::unique_ptr<M>> d; std::vector<Tab> t; std::vector<std::string> name; };
static Base& base(int V) {
  static std::map<int, Base> B; auto it = B.find(V + 1000 * LAY.id); if (it != B.end()) return it->second;
  Base& b = B[V + 1000 * LAY.id]; b.V = V; int nc = 1; for (int i = 0; i < V; i++) nc *= 3;
  for (int code = 0; code < nc; code++) for (int v = 0; v < NV; v++) for (int dflt = 0; dflt < NV; dflt++) { std::string s = cubeStr(code, V); b.d.emplace_back(new M(SymbolicVarAsgn(phys(s)), v, dflt)); b.t.push_back(cubeTab(s, v, dflt)); b.name.push_back("M(" + s + "," + std::to_string(v) + "," + std::to_string(dflt) + ")"); }
  for (int v = 0; v < NV; v++) { b.d.emplace_back(new M(v)); b.t.push_back(Tab(1 << V, v)); b.name.push_back("const(" + std::to_string(v) + ")"); }
  return b;
}
// every function {0,1}^V -> {0,1,2}, built as the maximum of its minterm cubes
static std::unique_ptr<M> buildFn(const Tab& f, int V) {
  std::unique_ptr<M> m(new M(0)); MaxF mx;
  for (int x = 0; x < (1 << V); x++) if (f[x]) { std::string s; for (int i = 0; i < V; i++) s += (x >> i & 1) ? '1' : '0'; M cube(SymbolicVarAsgn(phys(s)), f[x], 0); M r = mx(*m, cube); *m = r; }
  return m;
}
static Tab fnOf(uint64_t idx, int V) { Tab f; for (int x = 0; x < (1 << V); x++) { f.push_back((int)(idx % 3)); idx /= 3; } return f; }

static void stageBase(Env& env, const std::string& stage, int V) {
  ParallelOpts o; o.stage = stage; o.size = base(V).d.size(); o.block = 16;
  o.run = [V](uint64_t i, Ctx& c) { Base& b = base(V); c.evals(); if (i >= (uint64_t)NV) c.nontrivial(); W().check(c, *b.d[i], b.t[i], V, "construct", b.name[i]);
    { M cp(*b.d[i]); M as(7); as = cp; as = as; W().check(c, as, b.t[i], V, "copy/assign", b.name[i]); }
    for (int k = 0; k < 3; k++) { static Op1 keep[3] = {Op1(0), Op1(1), Op1(2)}; Op1& f = keep[k]; M r = f(*b.d[i]); Tab e; for (int v : b.t[i]) e.push_back(op1(k, v)); W().check(c, r, e, V, "Apply1", "op1#" + std::to_string(k) + " on " + b.name[i] + " (functor object reused over the whole run)"); c.count("apply1"); }
    { V1 v; v(*b.d[i]); std::set<int> e(b.t[i].begin(), b.t[i].end()); std::multiset<int> em(e.begin(), e.end()); if (v.seen != em) c.viol("VoidApply1", "leaves_visited_differ", {}, b.name[i]); }
  };
  env.parallel(o);
}

static void stageApply2(Env& env, const std::string& stage, int V) {
  uint64_t n = base(V).d.size(); ParallelOpts o; o.stage = stage; o.size = n * n; o.block = 512;
  o.run = [V, n](uint64_t idx, Ctx& c) { Base& b = base(V); size_t i = idx / n, j = idx % n; c.evals(); if (b.t[i] != b.t[j]) c.nontrivial();
    if (c.wantSample() && i > 40 && j > 80) c.sample("Apply2 ops on " + b.name[i] + " , " + b.name[j]);
    for (int k = 0; k < 4; k++) { static Op2 keep[4] = {Op2(0), Op2(1), Op2(2), Op2(3)};   // ONE functor object per operation for the whole life of the worker: its memo table must not survive a call (node addresses are reused)
      M r = keep[k](*b.d[i], *b.d[j]); Tab e; for (size_t x = 0; x < b.t[i].size(); x++) e.push_back(op2(k, b.t[i][x], b.t[j][x]));
      { Op2 fresh(k); M r2 = fresh(*b.d[i], *b.d[j]); if (!(r2 == r)) c.viol("Apply2", "reused_functor_and_fresh_functor_disagree", {}, std::string(OP2N[k]) + " on " + b.name[i] + " , " + b.name[j]); }
      W().check(c, r, e, V, "Apply2", std::string(OP2N[k]) + " on " + b.name[i] + " , " + b.name[j]); c.count("apply2"); }
    { V2 v; v(*b.d[i], *b.d[j]); std::set<std::pair<int, int>> e; for (size_t x = 0; x < b.t[i].size(); x++) e.insert({b.t[i][x], b.t[j][x]}); std::multiset<std::pair<int, int>> em(e.begin(), e.end()); if (v.seen != em) c.viol("VoidApply2", "leaf_pairs_visited_differ", {}, b.name[i] + " , " + b.name[j]); }
  };
  env.parallel(o);
}

static std::vector<size_t> subBasis(int V, size_t want) { size_t n = base(V).d.size(); std::vector<size_t> s; for (size_t k = 0; k < want; k++) s.push_back((k * 2654435761u + 7) % n); s.push_back(n - 1); s.push_back(n - 2); s.push_back(n - 3);   /* the constants */ std::sort(s.begin(), s.end()); s.erase(std::unique(s.begin(), s.end()), s.end()); return s; }

static void stageTrees(Env& env, const std::string& stage, int V, size_t sub) {
  auto S = std::make_shared<std::vector<size_t>>(subBasis(V, sub)); uint64_t n = S->size();
  ParallelOpts o; o.stage = stage; o.size = n * n * n; o.block = 256;
  o.run = [V, n, S](uint64_t idx, Ctx& c) { Base& b = base(V); size_t i = (*S)[idx / (n * n)], j = (*S)[idx / n % n], l = (*S)[idx % n]; c.evals(); c.nontrivial();
    const Tab &ti = b.t[i], &tj = b.t[j], &tl = b.t[l]; size_t N = ti.size();
    for (int k = 0; k < 2; k++) { static Op3 keep[2] = {Op3(0), Op3(1)}; Op3& f = keep[k]; M r = f(*b.d[i], *b.d[j], *b.d[l]); Tab e; for (size_t x = 0; x < N; x++) e.push_back(op3(k, ti[x], tj[x], tl[x])); W().check(c, r, e, V, "Apply3", "op3#" + std::to_string(k) + " on " + b.name[i] + " , " + b.name[j] + " , " + b.name[l]); c.count("apply3"); }
    for (int k1 = 0; k1 < 3; k1++) for (int k2 = 0; k2 < 3; k2++) { Op2 f1(k1), f2(k2);
      { M in = f1(*b.d[i], *b.d[j]); M r = f2(in, *b.d[l]); Tab e; for (size_t x = 0; x < N; x++) e.push_back(op2(k2, op2(k1, ti[x], tj[x]), tl[x])); W().check(c, r, e, V, "Apply2(depth2)", std::string(OP2N[k2]) + "(" + OP2N[k1] + "(" + b.name[i] + "," + b.name[j] + ")," + b.name[l] + ")"); }
      { M in = f1(*b.d[j], *b.d[l]); M r = f2(*b.d[i], in); Tab e; for (size_t x = 0; x < N; x++) e.push_back(op2(k2, ti[x], op2(k1, tj[x], tl[x]))); W().check(c, r, e, V, "Apply2(depth2)", std::string(OP2N[k2]) + "(" + b.name[i] + "," + OP2N[k1] + "(" + b.name[j] + "," + b.name[l] + "))"); }
      c.count("depth2", 2); }
  };
  env.parallel(o);
}


// Structural reference for Project with ANY (also non-idempotent, non-commutative) leaf operation: a reduced ordered diagram has a node for variable v
// exactly where the (sub)function depends on v, so the result is determined by the function table alone:
//   P(f) = f if f is constant; else with v the highest variable f depends on: g0 = P(f|v=0), g1 = P(f|v=1); op(g0,g1) pointwise if v is projected, else ite(v,g1,g0)
static Tab refProject(const Tab& f, int V, int mask, int opk) {
  int v = -1; for (int k = V - 1; k >= 0 && v < 0; k--) for (size_t x = 0; x < f.size(); x++) if (f[x] != f[x ^ (size_t(1) << k)]) { v = k; break; }
  if (v < 0) return f;
  Tab f0(f.size()), f1(f.size()); for (size_t x = 0; x < f.size(); x++) { f0[x] = f[x & ~(size_t(1) << v)]; f1[x] = f[x | (size_t(1) << v)]; }
  Tab g0 = refProject(f0, V, mask, opk), g1 = refProject(f1, V, mask, opk), r(f.size());
  for (size_t x = 0; x < f.size(); x++) r[x] = (mask >> v & 1) ? op2(opk, g0[x], g1[x]) : ((x >> v & 1) ? g1[x] : g0[x]);
  return r;
}

// structural operations on EVERY function {0,1}^V -> {0,1,2}
static void stageAllFunctions(Env& env, const std::string& stage, int V) {
  uint64_t nf = 1; for (int x = 0; x < (1 << V); x++) nf *= 3;
  ParallelOpts o; o.stage = stage; o.size = nf; o.block = 64;
  o.run = [V](uint64_t idx, Ctx& c) {
    Tab f = fnOf(idx, V); std::unique_ptr<M> m = buildFn(f, V); c.evals(); { std::set<int> vs(f.begin(), f.end()); if (vs.size() > 1) c.nontrivial(); }
    std::string nm = "function " + tstr(f);
    if (c.wantSample() && idx % 977 == 5) c.sample(nm + " (table over assignments 0.." + std::to_string((1 << V) - 1) + ", variable i = bit i)");
    W().check(c, *m, f, V, "construct(max of minterm cubes)", nm);
    // GetPaths partitions the assignment space consistently with GetValue
    { auto paths = m->GetPaths(); for (int x = 0; x < (1 << V); x++) { int hits = 0, val = -1; for (auto& p : paths) { bool match = true; for (size_t i = 0; i < p.first.length() && (int)i < V; i++) { char ch = p.first.GetIthVariableValue(i); int bit = x >> i & 1; if (ch == SymbolicVarAsgn::ZERO && bit) match = false; if (ch == SymbolicVarAsgn::ONE && !bit) match = false; } if (p.first.length() > (size_t)V) match = false; if (match) { hits++; val = p.second; } }
        if (hits != 1 || val != f[x]) { c.viol("GetPaths", hits != 1 ? "paths_do_not_partition_the_assignments" : "path_value_differs_from_GetValue", {}, nm + " assignment " + std::to_string(x)); break; } } c.count("getpaths"); }
    // Project: every subset of variables, idempotent commutative combiners max / min
    for (int mask = 0; mask < (1 << V); mask++) for (int comb = 0; comb < 2; comb++) {
      Tab e(1 << V); for (int x = 0; x < (1 << V); x++) { int acc = comb ? 99 : -1; for (int y = 0; y < (1 << V); y++) if (((x ^ y) & ~mask) == 0) acc = comb ? std::min(acc, f[y]) : std::max(acc, f[y]); e[x] = acc; }
      auto pred = [mask](size_t var) { return (mask >> var & 1) != 0; };
      if (comb == 0) { MaxF fn; M r = m->Project(pred, fn); W().check(c, r, e, V, "Project(max)", nm + " removing variable mask " + std::to_string(mask)); }
      else { MinF fn; M r = m->Project(pred, fn); W().check(c, r, e, V, "Project(min)", nm + " removing variable mask " + std::to_string(mask)); }
      c.count("project"); }
    // Project with non-idempotent / non-commutative leaf operations against the structural reference
    for (int mask = 1; mask < (1 << V); mask++) for (int opk : {0, 2}) { Tab e = refProject(f, V, mask, opk); auto pred = [mask](size_t var) { return (mask >> var & 1) != 0; };
      Op2 fn(opk); M r = m->Project(pred, fn); W().check(c, r, e, V, opk == 0 ? "Project((a+b)%3)" : "Project((2a+b)%3)", nm + " removing variable mask " + std::to_string(mask)); c.count("project_nonidempotent"); }
    // Rename: every order-preserving injection of the V variables into V+2 variables
    { int V2 = V + 2; std::vector<int> rho(V); std::function<void(int, int)> rec = [&](int i, int from) { if (i == V) { Tab e(1 << V2); for (int y = 0; y < (1 << V2); y++) { int x = 0; for (int k = 0; k < V; k++) if (y >> rho[k] & 1) x |= 1 << k; e[y] = f[x]; }
          std::vector<int> rr = rho; M r = m->Rename([rr](size_t var) { return (size_t)rr[var]; }); std::string rs; for (int k = 0; k < V; k++) rs += std::to_string(k) + "->" + std::to_string(rho[k]) + " "; W().check(c, r, e, V2, "Rename", nm + " renaming " + rs); c.count("rename"); return; }
        for (int t = from; t < V2 - (V - 1 - i); t++) { rho[i] = t; rec(i + 1, t + 1); } }; rec(0, 0); }
    // ExtendWith: every assignment of 2 extra variables placed above the V variables
    for (int code = 0; code < 9; code++) { std::string s = cubeStr(code, 2); int V2 = V + 2; Tab e(1 << V2); for (int y = 0; y < (1 << V2); y++) { bool match = true; for (int k = 0; k < 2; k++) { int bit = y >> (V + k) & 1; if (s[k] == '0' && bit) match = false; if (s[k] == '1' && !bit) match = false; } e[y] = match ? f[y & ((1 << V) - 1)] : m->GetDefaultValue(); }
      M r = m->ExtendWith(SymbolicVarAsgn(s), (size_t)V); W().check(c, r, e, V2, "ExtendWith", nm + " extended with " + s + " at offset " + std::to_string(V)); c.count("extend");
      // and back: selecting the prefix that matches gives the original function
      if (s.find('X') == std::string::npos) { M back = r.GetMtbddForPrefix(SymbolicVarAsgn(s), (size_t)V); W().check(c, back, f, V, "GetMtbddForPrefix(after ExtendWith)", nm + " prefix " + s); } }
    // GetMtbddForPrefix: fix the upper V-off variables to every concrete value
    for (int off = 0; off <= V; off++) for (int hi = 0; hi < (1 << (V - off)); hi++) { std::string s; for (int k = 0; k < V - off; k++) s += (hi >> k & 1) ? '1' : '0';
      Tab e(1 << V); for (int x = 0; x < (1 << V); x++) e[x] = f[(x & ((1 << off) - 1)) | (hi << off)];
      M r = m->GetMtbddForPrefix(SymbolicVarAsgn(s), (size_t)off); W().check(c, r, e, V, "GetMtbddForPrefix", nm + " prefix " + s + " offset " + std::to_string(off)); c.count("prefix"); }
  };
  env.parallel(o);
}

// every function over V logical variables placed by the current layout: construction, Project over every subset of the occupied positions (also together with an
// unoccupied position, which must change nothing for idempotent combiners), Rename by a constant shift that moves the variables across a byte boundary
static void stageAllFunctionsWide(Env& env, const std::string& stage, int V) {
  uint64_t nf = 1; for (int x = 0; x < (1 << V); x++) nf *= 3;
  ParallelOpts o; o.stage = stage; o.size = nf; o.block = 64;
  o.run = [V](uint64_t idx, Ctx& c) {
    Tab f = fnOf(idx, V); std::unique_ptr<M> m = buildFn(f, V); c.evals(); { std::set<int> vs(f.begin(), f.end()); if (vs.size() > 1) c.nontrivial(); }
    std::string nm = "function " + tstr(f) + " at positions"; for (int p : LAY.pos) nm += " " + std::to_string(p); nm += " of " + std::to_string(LAY.W);
    W().check(c, *m, f, V, "construct(wide)", nm);
    int freePos = -1; for (int p = 0; p < LAY.W && freePos < 0; p++) if (std::find(LAY.pos.begin(), LAY.pos.end(), p) == LAY.pos.end()) freePos = p;
    for (int mask = 0; mask < (1 << V); mask++) for (int extra = 0; extra < 2; extra++) { std::set<size_t> vars; for (int k = 0; k < V; k++) if (mask >> k & 1) vars.insert(LAY.pos[k]); if (extra) vars.insert(freePos);
      auto pred = [vars](size_t var) { return vars.count(var) != 0; };
      for (int comb = 0; comb < 2; comb++) { Tab e(1 << V); for (int x = 0; x < (1 << V); x++) { int acc = comb ? 99 : -1; for (int y = 0; y < (1 << V); y++) if (((x ^ y) & ~mask) == 0) acc = comb ? std::min(acc, f[y]) : std::max(acc, f[y]); e[x] = acc; }
        if (comb == 0) { MaxF fn; M r = m->Project(pred, fn); W().check(c, r, e, V, "Project(max,wide)", nm + " removing mask " + std::to_string(mask) + (extra ? " and an unoccupied position" : "")); }
        else { MinF fn; M r = m->Project(pred, fn); W().check(c, r, e, V, "Project(min,wide)", nm + " removing mask " + std::to_string(mask) + (extra ? " and an unoccupied position" : "")); } c.count("project"); }
      if (!extra && mask) for (int opk : {0, 2}) { Tab e = refProject(f, V, mask, opk); Op2 fn(opk); M r = m->Project(pred, fn); W().check(c, r, e, V, "Project(non-idempotent,wide)", nm + " removing mask " + std::to_string(mask)); c.count("project_nonidempotent"); } }
    for (int d : {1, 3, 8}) { M r = m->Rename([d](size_t var) { return var + d; }); Layout keep = LAY; LAY.W += d; for (int& p : LAY.pos) p += d; LAY.id = keep.id * 10 + d; W().check(c, r, f, V, "Rename(shift,wide)", nm + " shifted by " + std::to_string(d)); LAY = keep; c.count("rename"); }
    for (int k = 0; k < 3; k++) { Op1 g(k); M r = g(*m); Tab e; for (int v : f) e.push_back(op1(k, v)); W().check(c, r, e, V, "Apply1(wide)", nm); }
  };
  env.parallel(o);
}

// all ordered pairs of ALL functions (thorough)
static void stageAllPairs(Env& env, const std::string& stage, int V) {
  uint64_t nf = 1; for (int x = 0; x < (1 << V); x++) nf *= 3;
  ParallelOpts o; o.stage = stage; o.size = nf; o.block = 8; o.caseTimeout = 120;
  o.run = [V, nf](uint64_t i, Ctx& c) {
    static std::vector<std::unique_ptr<M>> all; if (all.empty()) for (uint64_t k = 0; k < nf; k++) all.push_back(buildFn(fnOf(k, V), V));
    Tab fi = fnOf(i, V);
    for (uint64_t j = 0; j < nf; j++) { Tab fj = fnOf(j, V); c.evals(); if (i != j) c.nontrivial();
      for (int k = 0; k < 3; k++) { Op2 f(k); M r = f(*all[i], *all[j]); Tab e; for (size_t x = 0; x < fi.size(); x++) e.push_back(op2(k, fi[x], fj[x])); W().check(c, r, e, V, "Apply2(all functions)", std::string(OP2N[k]) + " on functions " + tstr(fi) + " , " + tstr(fj)); c.count("apply2"); } }
  };
  env.parallel(o);
}

static Register r1("c17.v3.base", "C17", "all 243 single-cube diagrams + constants over 3 variables: construction, copy/assign, Apply1, VoidApply1, canonicity", [](Env& e) { stageBase(e, "c17.v3.base", 3); });
static Register r2("c17.v3.apply2", "C17", "all ordered pairs of the 246 base diagrams x 4 binary leaf operations + VoidApply2", [](Env& e) { stageApply2(e, "c17.v3.apply2", 3); });
static Register r3("c17.v3.trees", "C17", "all triples of a 30-element sub-basis: 2 ternary ops, 9x2 depth-2 operation trees", [](Env& e) { stageTrees(e, "c17.v3.trees", 3, 30); });
static Register r4("c17.v3.allfn", "C17", "ALL 6561 functions {0,1}^3->{0,1,2}: GetPaths, Project (all variable subsets x max/min), Rename (all order-preserving injections into 5 variables), ExtendWith, GetMtbddForPrefix", [](Env& e) { stageAllFunctions(e, "c17.v3.allfn", 3); });
static Register r5("c17.v2.allpairs", "C17", "ALL ordered pairs of ALL 81 functions over 2 variables x 3 binary ops", [](Env& e) { stageAllPairs(e, "c17.v2.allpairs", 2); });
static Register r6("c17.v3.allpairs", "C17", "ALL 43M ordered pairs of ALL 6561 functions over 3 variables x 3 binary ops", [](Env& e) { stageAllPairs(e, "c17.v3.allpairs", 3); });
static Register r7("c17.v4.base", "C17", "all single-cube diagrams over 4 variables", [](Env& e) { stageBase(e, "c17.v4.base", 4); });
static Register r8("c17.v4.apply2", "C17", "all ordered pairs of the 732 base diagrams over 4 variables x 4 ops", [](Env& e) { stageApply2(e, "c17.v4.apply2", 4); });
static Register r9("c17.v4.trees", "C17", "all triples of a 40-element sub-basis over 4 variables", [](Env& e) { stageTrees(e, "c17.v4.trees", 4, 40); });

static void setLay(int id, int W, std::vector<int> pos) { LAY.id = id; LAY.W = W; LAY.pos = pos; }
#define WIDE(ID, W, ...) \
static Register w##ID##a("c17.w" #ID ".apply2", "C17", "3 logical variables at physical positions {" #__VA_ARGS__ "} of " #W " (crossing the 8-variables-per-byte packing): all ordered pairs of the 246 base diagrams x 4 binary leaf operations", [](Env& e) { setLay(ID, W, {__VA_ARGS__}); stageBase(e, "c17.w" #ID ".base", 3); stageApply2(e, "c17.w" #ID ".apply2", 3); }); \
static Register w##ID##t("c17.w" #ID ".trees", "C17", "same layout: all triples of a 30-element sub-basis: ternary ops and depth-2 trees", [](Env& e) { setLay(ID, W, {__VA_ARGS__}); stageTrees(e, "c17.w" #ID ".trees", 3, 30); }); \
static Register w##ID##f("c17.w" #ID ".allfn", "C17", "same layout: ALL 6561 functions: construction, Project over all subsets of the occupied positions (+ an unoccupied one) with max/min/(a+b)%3/(2a+b)%3, Rename by shifts 1, 3, 8, Apply1", [](Env& e) { setLay(ID, W, {__VA_ARGS__}); stageAllFunctionsWide(e, "c17.w" #ID ".allfn", 3); });
WIDE(1, 10, 6, 7, 8)
WIDE(2, 10, 7, 8, 9)
WIDE(3, 18, 0, 8, 16)
WIDE(4, 17, 14, 15, 16)
WIDE(5, 33, 7, 15, 32)

}  // namespace c17
