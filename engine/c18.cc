// C18 — MTBDD nodes live exactly as long as something refers to them.  E-HIST over 3 handle slots, 2 variables.
#include "hist.hh"
#include <vata/vata.hh>
#include <vata/sym_var_asgn.hh>
#include "mtbdd/ondriks_mtbdd.hh"
#include "mtbdd/apply1func.hh"
#include "mtbdd/apply2func.hh"
#include <memory>

using namespace verif; using namespace VATA; using namespace VATA::MTBDDPkg;

namespace c18 {

typedef OndriksMTBDD<int> M; typedef M::NodePtrType NP;
static const int V = 2, SLOTS = 3;
struct OrF : public Apply2Functor<OrF, int, int, int> { int ApplyOperation(const int& a, const int& b) { return a | b; } };
struct XorF : public Apply2Functor<XorF, int, int, int> { int ApplyOperation(const int& a, const int& b) { return a ^ b; } };
struct NotF : public Apply1Functor<NotF, int, int> { int ApplyOperation(const int& a) { return 1 - a; } };

struct Op { int kind; int i, j, k, asgn, val, def, op; };   // kind: 0 construct 1 const 2 copy 3 assign 4 apply2 5 apply1 6 destroy
static std::vector<Op> buildMenu() {
  std::vector<Op> m;
  for (int i = 0; i < SLOTS; i++) for (int a = 0; a < 9; a++) for (int v = 0; v < 2; v++) for (int d = 0; d < 2; d++) m.push_back({0, i, 0, 0, a, v, d, 0});
  for (int i = 0; i < SLOTS; i++) for (int v = 0; v < 2; v++) m.push_back({1, i, 0, 0, 0, v, 0, 0});
  for (int i = 0; i < SLOTS; i++) for (int j = 0; j < SLOTS; j++) if (i != j) m.push_back({2, i, j, 0, 0, 0, 0, 0});
  for (int i = 0; i < SLOTS; i++) for (int j = 0; j < SLOTS; j++) m.push_back({3, i, j, 0, 0, 0, 0, 0});
  for (int o = 0; o < 2; o++) for (int i = 0; i < SLOTS; i++) for (int j = 0; j < SLOTS; j++) for (int k = 0; k < SLOTS; k++) m.push_back({4, i, j, k, 0, 0, 0, o});
  for (int i = 0; i < SLOTS; i++) for (int k = 0; k < SLOTS; k++) m.push_back({5, i, 0, k, 0, 0, 0, 0});
  for (int i = 0; i < SLOTS; i++) m.push_back({6, i, 0, 0, 0, 0, 0, 0});
  return m;
}
static const std::vector<Op>& menu() { static std::vector<Op> m = buildMenu(); return m; }
static std::string cube(int code) { std::string s; for (int i = 0; i < V; i++) { s += "01X"[code % 3]; code /= 3; } return s; }
static std::string opName(int x) { const Op& o = menu()[x]; char b[96];
  switch (o.kind) { case 0: snprintf(b, sizeof b, "s%d=new M(%s,%d,%d)", o.i, cube(o.asgn).c_str(), o.val, o.def); break; case 1: snprintf(b, sizeof b, "s%d=new M(%d)", o.i, o.val); break;
    case 2: snprintf(b, sizeof b, "s%d=new M(*s%d)", o.j, o.i); break; case 3: snprintf(b, sizeof b, "*s%d=*s%d", o.j, o.i); break; case 4: snprintf(b, sizeof b, "s%d=%s(*s%d,*s%d)", o.k, o.op ? "xor" : "or", o.i, o.j); break;
    case 5: snprintf(b, sizeof b, "s%d=not(*s%d)", o.k, o.i); break; default: snprintf(b, sizeof b, "delete s%d", o.i); }
  return b; }
static std::string describe(const std::vector<int>& h) { std::string s; for (size_t i = 0; i < h.size(); i++) s += (i ? "; " : "") + opName(h[i]); return s; }

struct Ref { bool live = false; int t[4]; int def; };
static void cubeTab(int code, int v, int d, int* t) { std::string s = cube(code); for (int x = 0; x < 4; x++) { bool m = true; for (int i = 0; i < V; i++) { int bit = x >> i & 1; if (s[i] == '0' && bit) m = false; if (s[i] == '1' && !bit) m = false; } t[x] = m ? v : d; } }

// consistency of the whole node store with the live roots: every node reachable from a live root is in its unique table,
// and the reference count of every stored node equals (#stored parents pointing to it) + (#live roots on it)
static void checkStore(std::unique_ptr<M>* s, Ctx& c) {
  std::map<uintptr_t, long> expect; std::map<uintptr_t, NP> nodes;
  for (auto& kv : M::leafCache_) { nodes.insert({kv.second.addr_, kv.second}); expect[kv.second.addr_]; if (!IsLeaf(kv.second) || GetDataFromLeaf(kv.second) != kv.first) c.viol("node store", "leaf_table_entry_inconsistent", {}, "leaf unique table maps a value to a node holding another value"); }
  for (auto& kv : M::internalCache_) { NP n = kv.second; nodes.insert({n.addr_, n}); expect[n.addr_];
    if (!IsInternal(n) || GetLowFromInternal(n).addr_ != kv.first.first.addr_ || GetHighFromInternal(n).addr_ != kv.first.second.addr_ || GetVarFromInternal(n) != kv.first.third) c.viol("node store", "internal_table_entry_inconsistent", {}, "internal unique table key differs from the node it maps to"); }
  for (auto& kv : M::internalCache_) { NP n = kv.second; uintptr_t lo = GetLowFromInternal(n).addr_, hi = GetHighFromInternal(n).addr_;
    if (!nodes.count(lo) || !nodes.count(hi)) { c.viol("node store", "child_of_stored_node_not_in_unique_table", {}, "an internal node of the store points to a node that is in no unique table (released while referred to?)"); return; }
    if (lo == hi) c.viol("node store", "internal_node_with_equal_children", {}, "low == high");
    expect[lo]++; expect[hi]++; }
  for (int i = 0; i < SLOTS; i++) if (s[i]) { uintptr_t r = s[i]->root_.addr_; if (!nodes.count(r)) { c.viol("node store", "live_root_not_in_unique_table", {"slot" + std::to_string(i)}, "the root of live handle s" + std::to_string(i) + " is in no unique table"); return; } expect[r]++; }
  for (auto& kv : nodes) { long rc = (long)GetRefCnt(kv.second); if (rc != expect[kv.first]) { c.viol("node store", rc < expect[kv.first] ? "reference_count_too_small" : "reference_count_too_big", {IsLeaf(kv.second) ? "leaf" : "internal"}, std::string(IsLeaf(kv.second) ? "leaf" : "internal") + " node has reference count " + std::to_string(rc) + " but " + std::to_string(expect[kv.first]) + " referrers (stored parents + live roots)"); return; } }
}

static hist::StepResult run(const std::vector<int>& h, Ctx& c, bool checkAll) {
  hist::StepResult R; std::unique_ptr<M> s[SLOTS]; Ref r[SLOTS];
  size_t leaf0 = M::leafCache_.size(), int0 = M::internalCache_.size();
  auto keyOf = [&]() { std::string k; std::map<uintptr_t, int> ids; for (int i = 0; i < SLOTS; i++) { if (!s[i]) { k += "-|"; continue; } for (int x = 0; x < 4; x++) k += char('0' + r[i].t[x]); k += 'd'; k += char('0' + r[i].def); uintptr_t a = s[i]->root_.addr_; if (!ids.count(a)) { int n = (int)ids.size(); ids[a] = n; } k += 'r'; k += char('0' + ids[a]); k += '|'; }
    k += "L" + std::to_string(M::leafCache_.size() - leaf0) + "I" + std::to_string(M::internalCache_.size() - int0); return k; };
  for (size_t n = 0; n < h.size(); n++) {
    if (n + 1 == h.size()) R.prefixKey = keyOf();
    const Op& o = menu()[h[n]]; bool en = true;
    switch (o.kind) {
      case 0: if (s[o.i]) { en = false; break; } s[o.i].reset(new M(SymbolicVarAsgn(cube(o.asgn)), o.val, o.def)); r[o.i].live = true; cubeTab(o.asgn, o.val, o.def, r[o.i].t); r[o.i].def = o.def; break;
      case 1: if (s[o.i]) { en = false; break; } s[o.i].reset(new M(o.val)); r[o.i].live = true; for (int x = 0; x < 4; x++) r[o.i].t[x] = o.val; r[o.i].def = o.val; break;
      case 2: if (!s[o.i] || s[o.j]) { en = false; break; } s[o.j].reset(new M(*s[o.i])); r[o.j] = r[o.i]; break;
      case 3: if (!s[o.i] || !s[o.j]) { en = false; break; } *s[o.j] = *s[o.i]; r[o.j] = r[o.i]; break;
      case 4: { if (!s[o.i] || !s[o.j]) { en = false; break; } Ref nr; nr.live = true; for (int x = 0; x < 4; x++) nr.t[x] = o.op ? (r[o.i].t[x] ^ r[o.j].t[x]) : (r[o.i].t[x] | r[o.j].t[x]); nr.def = o.op ? (r[o.i].def ^ r[o.j].def) : (r[o.i].def | r[o.j].def);
        if (o.op) { XorF f; M res = f(*s[o.i], *s[o.j]); if (s[o.k]) *s[o.k] = res; else s[o.k].reset(new M(res)); } else { OrF f; M res = f(*s[o.i], *s[o.j]); if (s[o.k]) *s[o.k] = res; else s[o.k].reset(new M(res)); }
        r[o.k] = nr; break; }
      case 5: { if (!s[o.i]) { en = false; break; } Ref nr; nr.live = true; for (int x = 0; x < 4; x++) nr.t[x] = 1 - r[o.i].t[x]; nr.def = 1 - r[o.i].def; NotF f; M res = f(*s[o.i]); if (s[o.k]) *s[o.k] = res; else s[o.k].reset(new M(res)); r[o.k] = nr; break; }
      default: if (!s[o.i]) { en = false; break; } s[o.i].reset(); r[o.i].live = false;
    }
    if (!en) { R.enabled = false; for (int i = 0; i < SLOTS; i++) s[i].reset(); return R; }
    if (checkAll || n + 1 == h.size()) {   // invariants of the reached state
      for (int i = 0; i < SLOTS; i++) if (s[i]) { for (int x = 0; x < 4; x++) { int g = s[i]->GetValue(SymbolicVarAsgn(V, x)); if (g != r[i].t[x]) { c.viol("live handle", "function_changed", {}, "s" + std::to_string(i) + " returns " + std::to_string(g) + " for assignment " + std::to_string(x) + ", expected " + std::to_string(r[i].t[x])); break; } }
        if (s[i]->GetDefaultValue() != r[i].def) c.viol("live handle", "default_value_changed", {}, "s" + std::to_string(i)); }
      for (int i = 0; i < SLOTS; i++) for (int j = i + 1; j < SLOTS; j++) if (s[i] && s[j]) { bool same = true; for (int x = 0; x < 4; x++) if (r[i].t[x] != r[j].t[x]) same = false; if ((*s[i] == *s[j]) != same) c.viol("canonicity", same ? "two_diagrams_for_one_function" : "one_diagram_for_two_functions", {}, "s" + std::to_string(i) + " vs s" + std::to_string(j)); }
      checkStore(s, c);
    }
  }
  R.key = keyOf(); if (h.empty()) R.prefixKey = "";
  { std::set<uintptr_t> roots; int live = 0; for (int i = 0; i < SLOTS; i++) if (s[i]) { live++; roots.insert(s[i]->root_.addr_); } R.sharing = live > (int)roots.size() || M::internalCache_.size() - int0 > 0; }
  // probe from this state: destroy all remaining handles, the two unique tables must be back to their baseline sizes
  for (int i = 0; i < SLOTS; i++) s[i].reset();
  if (M::leafCache_.size() != leaf0 || M::internalCache_.size() != int0)
    c.viol("node store", "nodes_left_after_all_handles_destroyed", {M::internalCache_.size() != int0 ? "internal" : "leaf"}, "after destroying every handle the unique tables hold " + std::to_string(M::leafCache_.size()) + " leaves / " + std::to_string(M::internalCache_.size()) + " internal nodes (baseline " + std::to_string(leaf0) + " / " + std::to_string(int0) + ")");
  if (M::leafCache_.size() != leaf0 || M::internalCache_.size() != int0) { /* reset the store for the next history: leaked nodes would otherwise be blamed on later cases */ M::leafCache_.clear(); M::internalCache_.clear(); }
  return R;
}

static void body(Env& env, const std::string& stage, int depth) {
  hist::Spec sp; sp.stage = stage; sp.menuSize = (int)menu().size(); sp.maxDepth = depth; sp.stateBudget = 4000000;
  bool verbose = !env.replayArg.empty();
  sp.run = [verbose](const std::vector<int>& h, Ctx& c) { return run(h, c, verbose); }; sp.describe = describe;
  hist::bfs(env, sp);
}

// ---- fan-in family: the number of SIMULTANEOUS references to one node as an enumeration dimension, taken across the boundaries of 8- and 16-bit counters
// (a 32-bit boundary would need 4 G references: out of reach, stated in DESIGN.md).  kind 0: N copies of a constant handle (references to a leaf from roots);
// kind 1: N copies of a one-node diagram (references to an internal node from roots); kind 2: N distinct parents (the same node renamed to N different variables)
// above two shared leaves (references from stored parents).  After every phase: every live handle reads its function, the root is in its unique table, and its stored
// reference count equals stored parents + live roots; between phases other diagrams are built and dropped so that freed memory would be reused.
static const long FANIN[] = {255, 256, 257, 65535, 65536, 65537, 131072, 131073};
static long storedParents(uintptr_t a) { long n = 0; for (auto& kv : M::internalCache_) { if (GetLowFromInternal(kv.second).addr_ == a) n++; if (GetHighFromInternal(kv.second).addr_ == a) n++; } return n; }
static const NP* findNode(uintptr_t a) { for (auto& kv : M::leafCache_) if (kv.second.addr_ == a) return &kv.second; for (auto& kv : M::internalCache_) if (kv.second.addr_ == a) return &kv.second; return nullptr; }
static bool inTables(uintptr_t a) { for (auto& kv : M::leafCache_) if (kv.second.addr_ == a) return true; for (auto& kv : M::internalCache_) if (kv.second.addr_ == a) return true; return false; }
static void fanin(Env& env, const std::string& stage) {
  ParallelOpts o; o.stage = stage; o.size = 3 * (sizeof FANIN / sizeof FANIN[0]); o.block = 1; o.caseTimeout = 300;
  o.describe = [](uint64_t idx) { return "kind " + std::to_string(idx % 3) + " (0 leaf<-roots, 1 internal<-roots, 2 leaf<-parents), N=" + std::to_string(FANIN[idx / 3]); };
  o.run = [](uint64_t idx, Ctx& c) { int kind = (int)(idx % 3); long N = FANIN[idx / 3]; c.evals(); c.nontrivial(); c.count("fanin_kind" + std::to_string(kind));
    std::string what = "kind " + std::to_string(kind) + " N=" + std::to_string(N); size_t leaf0 = M::leafCache_.size(), int0 = M::internalCache_.size();
    { std::unique_ptr<M> base(kind == 0 ? new M(1) : new M(SymbolicVarAsgn("1"), 1, 0)); std::vector<std::unique_ptr<M>> hs; std::vector<char> over;
      auto val = [](const M& m, int x) { return m.GetValue(SymbolicVarAsgn(1, x)); };
      auto verify = [&](const std::string& phase) -> bool {
        long live = 1; for (auto& h : hs) if (h && h->root_.addr_ == base->root_.addr_) live++;
        for (int x = 0; x < 2; x++) { int e = kind == 0 ? 1 : x; if (val(*base, x) != e) { c.viol("fan-in", "function_changed", {"kind" + std::to_string(kind)}, what + " " + phase + ": the base handle reads " + std::to_string(val(*base, x))); return false; } }
        size_t probe[3] = {0, hs.size() / 2, hs.empty() ? 0 : hs.size() - 1}; for (size_t pi : probe) if (pi < hs.size() && hs[pi]) { if (over.size() > pi && over[pi]) { if (hs[pi]->GetValue(SymbolicVarAsgn(1, 0)) != 5) { c.viol("fan-in", "function_changed", {"kind" + std::to_string(kind)}, what + " " + phase + ": overwritten copy #" + std::to_string(pi)); return false; } } else if (kind == 2) { std::string a(pi + 2, '0'); std::string b = a; b[pi + 1] = '1'; if (hs[pi]->GetValue(SymbolicVarAsgn(a)) != 0 || hs[pi]->GetValue(SymbolicVarAsgn(b)) != 1) { c.viol("fan-in", "function_changed", {"kind2"}, what + " " + phase + ": parent #" + std::to_string(pi)); return false; } } else for (int x = 0; x < 2; x++) if (val(*hs[pi], x) != (kind == 0 ? 1 : x)) { c.viol("fan-in", "function_changed", {"kind" + std::to_string(kind)}, what + " " + phase + ": copy #" + std::to_string(pi)); return false; } }
        std::vector<uintptr_t> watch; if (kind == 2) { watch.push_back(GetLowFromInternal(base->root_).addr_); watch.push_back(GetHighFromInternal(base->root_).addr_); } else watch.push_back(base->root_.addr_);
        for (uintptr_t a : watch) { if (!inTables(a)) { c.viol("fan-in", "referenced_node_not_in_unique_table", {"kind" + std::to_string(kind)}, what + " " + phase); return false; }
          long roots = 0; if (base->root_.addr_ == a) roots++; for (auto& h : hs) if (h && h->root_.addr_ == a) roots++; long want = storedParents(a) + roots; long rc = (long)GetRefCnt(*findNode(a));
          if (rc != want) { c.viol("fan-in", rc < want ? "reference_count_too_small" : "reference_count_too_big", {"kind" + std::to_string(kind)}, what + " " + phase + ": stored count " + std::to_string(rc) + ", referrers " + std::to_string(want)); return false; } }
        (void)live; return true; };
      auto churn = [&]() { for (int k = 0; k < 64; k++) { M t(SymbolicVarAsgn(k % 2 ? "10" : "01"), 7 + k, 3); OrF f; M u = f(t, *base); (void)u; } };
      hs.reserve(N); for (long k = 0; k < N; k++) { if (kind == 2) { size_t var = (size_t)k + 1; hs.emplace_back(new M(base->Rename([var](size_t) { return var; }))); } else hs.emplace_back(new M(*base)); }
      if (!verify("after creating the references")) goto out;
      for (long target : {131072L, 65537L, 65536L, 65535L, 65534L, 257L, 256L, 255L, 254L, 1L, 0L}) { if (target >= (long)hs.size()) continue; while ((long)hs.size() > target) hs.pop_back(); churn(); if (!verify("after dropping to " + std::to_string(target) + " extra references")) goto out; }
      // grow again from the bottom (the counter comes from below this time), copy-assign over half of them, drop everything
      for (long k = 0; k < std::min(N, 70000L); k++) { if (kind == 2) { size_t var = (size_t)k + 1; hs.emplace_back(new M(base->Rename([var](size_t) { return var; }))); } else hs.emplace_back(new M(*base)); }
      if (!verify("after growing again")) goto out;
      { M other(5); over.assign(hs.size(), 0); for (size_t k = 0; k < hs.size(); k += 2) { *hs[k] = other; over[k] = 1; } churn(); if (!verify("after assigning another diagram over every second reference")) goto out; }
      out:;
    }
    if (kind == 2) { /* parents are made with Rename, which the statement does not put under the leak clause: no probe, just a clean store for the next case */ if (M::leafCache_.size() != leaf0 || M::internalCache_.size() != int0) { M::leafCache_.clear(); M::internalCache_.clear(); } }
    else if (M::leafCache_.size() != leaf0 || M::internalCache_.size() != int0) { c.viol("fan-in", "nodes_left_after_all_handles_destroyed", {"kind" + std::to_string(kind)}, what + ": unique tables hold " + std::to_string(M::leafCache_.size()) + " leaves / " + std::to_string(M::internalCache_.size()) + " internal nodes, baseline " + std::to_string(leaf0) + " / " + std::to_string(int0)); M::leafCache_.clear(); M::internalCache_.clear(); }
  };
  env.parallel(o);
}
static Register rf("c18.fanin", "C18", "fan-in family: 255..131073 simultaneous references to one leaf / internal node from roots and from stored parents, dropped and regrown across the 8- and 16-bit counter boundaries; values, unique-table membership and exact reference counts after every phase", [](Env& e) { fanin(e, "c18.fanin"); });
static Register r1("c18.d3", "C18", "BFS depth 3 over construct/const/copy/assign(incl. self)/apply2(or,xor; result may overwrite an operand)/apply1/destroy on 3 handles, 2 variables", [](Env& e) { body(e, "c18.d3", 3); });
static Register r2("c18.d4", "C18", "BFS depth 4", [](Env& e) { body(e, "c18.d4", 4); });
static Register r3("c18.d5", "C18", "BFS depth 5", [](Env& e) { body(e, "c18.d5", 5); });
static Register r4("c18.d6", "C18", "BFS depth 6", [](Env& e) { body(e, "c18.d6", 6); });
static Register r5("c18.sat", "C18", "BFS until no new state appears (depth bound 12)", [](Env& e) { body(e, "c18.sat", 12); });

}  // namespace c18
