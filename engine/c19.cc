// C19 — results invariant under renaming / reordering; verdicts obey the language laws, also on the shipped corpus.
#include "runner.hh"
#include "domain.hh"
#include <vata/incl_param.hh>
#include <vata/sim_param.hh>
#include <vata/parsing/timbuk_parser.hh>
#include <vata/serialization/timbuk_serializer.hh>
#include <dirent.h>
#include <fstream>

using namespace verif; using namespace VATA;

namespace c01 { struct Variant { const char* name; bool down, rec, opt, sim; }; int callIncl(const ExplicitTreeAut&, const ExplicitTreeAut&, const Variant&, std::string*); extern std::string g_internalViolation; }

namespace c19 {

static const c01::Variant VAR[8] = {{"up_nosim", false, false, false, false}, {"up_sim", false, false, false, true}, {"down_nonrec_nosim", true, false, false, false}, {"down_nonrec_sim", true, false, false, true},
  {"down_rec_nosim", true, true, false, false}, {"down_rec_sim", true, true, false, true}, {"down_rec_opt_nosim", true, true, true, false}, {"down_rec_opt_sim", true, true, true, true}};

// build A with states renamed by f, symbols renamed by symPerm, rules inserted in the order given by `order` (a permutation of the sorted rule list)
static ExplicitTreeAut buildVariant(const ref::TA& A, const std::function<size_t(size_t)>& f, const std::vector<int>& symPerm, const std::vector<int>& order) {
  std::vector<ref::Rule> rs(A.rules.begin(), A.rules.end()); ExplicitTreeAut x;
  for (int i : order) { ref::Rule r = rs[i]; for (auto& c : r.ch) c = f(c); x.AddTransition(r.ch, symPerm[r.sym], f(r.par)); }
  std::vector<size_t> fs(A.finals.begin(), A.finals.end()); if (!order.empty() && order[0] != 0) std::reverse(fs.begin(), fs.end()); for (auto q : fs) x.SetStateFinal(f(q));
  return x;
}
struct Obs { bool empty; size_t redS, redR, uslS, uslR, unrS, unrR; std::string downSim, upSim; bool operator==(const Obs& o) const { return empty == o.empty && redS == o.redS && redR == o.redR && uslS == o.uslS && uslR == o.uslR && unrS == o.unrS && unrR == o.unrR && downSim == o.downSim && upSim == o.upSim; }
  std::string str() const { return std::string("empty=") + (empty ? "1" : "0") + " Reduce=" + std::to_string(redS) + "/" + std::to_string(redR) + " RemoveUseless=" + std::to_string(uslS) + "/" + std::to_string(uslR) + " RemoveUnreachable=" + std::to_string(unrS) + "/" + std::to_string(unrR) + " downSim=" + downSim + " upSim=" + upSim; } };
static Obs observe(const ExplicitTreeAut& x, int n, const std::vector<size_t>& pi /* dense numbering used, empty if sparse */, bool trimmed) {
  Obs o; o.empty = x.IsLangEmpty(); { ref::TA r = dom::readBack(x.Reduce()); o.redS = r.states().size(); o.redR = r.rules.size(); } { ref::TA r = dom::readBack(x.RemoveUselessStates()); o.uslS = r.states().size(); o.uslR = r.rules.size(); } { ref::TA r = dom::readBack(x.RemoveUnreachableStates()); o.unrS = r.states().size(); o.unrR = r.rules.size(); }
  if (!pi.empty()) { SimParam sp; sp.SetNumStates(n); sp.SetRelation(SimParam::e_sim_relation::TA_DOWNWARD); auto s = x.ComputeSimulation(sp); for (int q = 0; q < n; q++) for (int r = 0; r < n; r++) o.downSim += s.get(pi[q], pi[r]) ? '1' : '0';   // relation mapped back to the original names
    if (trimmed) { sp.SetRelation(SimParam::e_sim_relation::TA_UPWARD); auto u = x.ComputeSimulation(sp); for (int q = 0; q < n; q++) for (int r = 0; r < n; r++) o.upSim += u.get(pi[q], pi[r]) ? '1' : '0'; } }
  return o;
}

static void smallSingle(Env& env, const std::string& stage, int n, const dom::Alphabet& sig, int k, bool trimmedOnly = false) {
  auto D = trimmedOnly ? std::make_shared<dom::TADomain>(n, sig, k, false, true) : std::make_shared<dom::TADomain>(n, sig, k); if (trimmedOnly) D->keepTrimmedOnly(); int ns = (int)sig.ranks.size();
  std::vector<std::vector<size_t>> perms; { std::vector<size_t> p(n); for (int i = 0; i < n; i++) p[i] = i; do perms.push_back(p); while (std::next_permutation(p.begin(), p.end())); }
  std::vector<std::vector<int>> sperms; { std::vector<int> p(ns); for (int i = 0; i < ns; i++) p[i] = i; do sperms.push_back(p); while (std::next_permutation(p.begin(), p.end())); }
  dom::forEachTA(env, stage, D, [D, perms, sperms, n](const ref::TA& A, size_t idx, Ctx& c) {
    bool dense = (int)A.states().size() == n; bool trimmed = dense && !dom::hasUseless(A); c.evals(); if (A.rules.size() >= 2) c.nontrivial(); uint64_t w = A.rules.size();
    if (c.wantSample() && A.rules.size() >= 3 && trimmed) c.sample(D->str(A));
    std::vector<int> ord(A.rules.size()); for (size_t i = 0; i < ord.size(); i++) ord[i] = (int)i; std::vector<std::vector<int>> orders; do orders.push_back(ord); while (std::next_permutation(ord.begin(), ord.end()));
    std::vector<size_t> idp(n); for (int i = 0; i < n; i++) idp[i] = i;
    try { Obs base = observe(buildVariant(A, [](size_t q) { return q; }, sperms[0], orders[0]), n, dense ? idp : std::vector<size_t>(), trimmed);
      for (auto& pi : perms) for (int emb = 0; emb < 2; emb++) for (auto& sp : sperms) for (auto& od : orders) {
        std::function<size_t(size_t)> f = emb ? std::function<size_t(size_t)>([&pi](size_t q) { return 7 * pi[q] + 3; }) : std::function<size_t(size_t)>([&pi](size_t q) { return pi[q]; });
        Obs o = observe(buildVariant(A, f, sp, od), n, (dense && !emb) ? pi : std::vector<size_t>(), trimmed); c.count("variants");
        Obs b2 = base; if (!(dense && !emb)) { b2.downSim.clear(); b2.upSim.clear(); }
        if (!(o == b2)) { std::string tag = "state map:"; for (int q = 0; q < n; q++) tag += " " + std::to_string(q) + "->" + std::to_string(f(q)); tag += " symbol ids:"; for (int s : sp) tag += " " + std::to_string(s); tag += " insertion order:"; for (int i : od) tag += " " + std::to_string(i);
          std::string cls = o.empty != b2.empty ? "emptiness_verdict_changed" : o.downSim != b2.downSim || o.upSim != b2.upSim ? "simulation_not_the_renamed_image" : "result_size_changed";
          c.viol("renamed twin of one automaton", cls, {}, D->str(A) + " | " + tag + "\nbase:    " + b2.str() + "\nvariant: " + o.str() + "\n--- A (timbuk)\n" + dom::timbuk(A, D->sig, "A"), w); return; } }
    } catch (std::exception& e) { c.viol("renamed twin of one automaton", "exception", {}, D->str(A) + " " + e.what(), w); }
  }, 16, 60);
}

// duplicated-state twins: every trimmed automaton A of a small domain with one state q split into two copies q, q' (every rule in every combination of q / q' at the
// occurrences of q; q' final iff q is).  B = dup(A,q) has the language of A, several rules with the SAME left-hand side and different parents, and n+1 states.
// Checked with no reference model at all: (1) everything observable of B is invariant under all (n+1)! bijections x {ascending, descending} construction;
// (2) the twins simulate each other, downward and upward; (3) all 8 inclusion algorithms say A <= B and B <= A; (4) Reduce(B) has no more states than A.
static void smallSingleDup(Env& env, const std::string& stage, int n, const dom::Alphabet& sig, int k, size_t maxRules) {
  auto D = std::make_shared<dom::TADomain>(n, sig, k, false, true); D->keepTrimmedOnly(); int m = n + 1;
  std::vector<std::vector<size_t>> perms; { std::vector<size_t> p(m); for (int i = 0; i < m; i++) p[i] = i; do perms.push_back(p); while (std::next_permutation(p.begin(), p.end())); }
  dom::forEachTA(env, stage, D, [D, perms, n, m, maxRules](const ref::TA& A, size_t idx, Ctx& c) {
    if ((int)A.states().size() != n) return; c.evals(); uint64_t w = A.rules.size();
    for (size_t q = 0; q < (size_t)n; q++) {
      ref::TA B; for (auto f : A.finals) { B.finals.insert(f); if (f == q) B.finals.insert(n); }
      for (auto& r : A.rules) { std::vector<size_t*> occ; ref::Rule t = r; for (auto& ch : t.ch) if (ch == q) occ.push_back(&ch); if (t.par == q) occ.push_back(&t.par); for (unsigned mask = 0; mask < (1u << occ.size()); mask++) { for (size_t i = 0; i < occ.size(); i++) *occ[i] = (mask >> i & 1) ? (size_t)n : q; B.rules.insert(t); } }
      if (B.rules.size() > maxRules) { c.count("twin_too_large_skipped"); continue; } c.nontrivial(); c.count("twins");
      std::string what = D->str(A) + " | state " + std::to_string(q) + " duplicated as " + std::to_string(n) + ": " + D->str(B);
      if (c.wantSample() && B.rules.size() >= 6) c.sample(what);
      std::vector<int> asc(B.rules.size()), desc; for (size_t i = 0; i < asc.size(); i++) asc[i] = (int)i; desc.assign(asc.rbegin(), asc.rend()); std::vector<int> symId(D->sig.ranks.size()); for (size_t i = 0; i < symId.size(); i++) symId[i] = (int)i;
      try { std::vector<size_t> idp(m); for (int i = 0; i < m; i++) idp[i] = i; ExplicitTreeAut b0 = buildVariant(B, [](size_t x) { return x; }, symId, asc); Obs base = observe(b0, m, idp, true);
        // (2) the twins are simulation-equivalent (matrix is row-major over the original names)
        auto rel = [&](const std::string& mx, size_t x, size_t y) { return mx[x * m + y] == '1'; };
        if (!rel(base.downSim, q, n) || !rel(base.downSim, n, q)) c.viol("duplicated-state twin", "downward_simulation_does_not_relate_the_twins", {}, what + " downSim=" + base.downSim, w);
        if (!rel(base.upSim, q, n) || !rel(base.upSim, n, q)) c.viol("duplicated-state twin", "upward_simulation_does_not_relate_the_twins", {}, what + " upSim=" + base.upSim, w);
        // (4) and (3)
        if (base.redS > (size_t)n) c.viol("duplicated-state twin", "Reduce_keeps_both_twins", {}, what + " Reduce has " + std::to_string(base.redS) + " states", w);
        { ExplicitTreeAut a0 = dom::build(A); for (auto& v : VAR) { std::string e1, e2; int g1 = c01::callIncl(a0, b0, v, &e1), g2 = c01::callIncl(b0, a0, v, &e2); c.count("calls", 2); if (g1 != 1 || g2 != 1) c.viol(std::string("duplicated-state twin/") + v.name, g1 != 1 ? "A_not_included_in_its_twin_form" : "twin_form_not_included_in_A", {}, what + " " + e1 + e2, w); } }
        // (1) invariance
        for (auto& pi : perms) for (int od = 0; od < 2; od++) { if (od == 0 && pi == idp) continue; Obs o = observe(buildVariant(B, [&pi](size_t x) { return pi[x]; }, symId, od ? desc : asc), m, pi, true); c.count("variants");
          if (!(o == base)) { std::string tag = "state map:"; for (int x = 0; x < m; x++) tag += " " + std::to_string(x) + "->" + std::to_string(pi[x]); tag += od ? " descending construction" : " ascending construction";
            std::string cls = o.empty != base.empty ? "emptiness_verdict_changed" : o.downSim != base.downSim || o.upSim != base.upSim ? "simulation_not_the_renamed_image" : "result_size_changed";
            c.viol("renamed twin of one automaton", cls, {"duplicated_state"}, what + " | " + tag + "\nbase:    " + base.str() + "\nvariant: " + o.str(), w); break; } }
      } catch (std::exception& e) { c.viol("duplicated-state twin", "exception", {}, what + " " + e.what(), w); }
    }
  }, 16, 60);
}

static void smallPairs(Env& env, const std::string& stage, int n, const dom::Alphabet& sig, int perSide, int totalMax) {
  auto D = std::make_shared<dom::TADomain>(n, sig, perSide); auto P = std::make_shared<dom::PairIndex>(*D, totalMax); int ns = (int)sig.ranks.size(); env.noteNum(stage + ".automata", D->size());
  std::vector<std::vector<size_t>> perms; { std::vector<size_t> p(n); for (int i = 0; i < n; i++) p[i] = i; do perms.push_back(p); while (std::next_permutation(p.begin(), p.end())); }
  std::vector<std::vector<int>> sperms; { std::vector<int> p(ns); for (int i = 0; i < ns; i++) p[i] = i; do sperms.push_back(p); while (std::next_permutation(p.begin(), p.end())); }
  ParallelOpts o; o.stage = stage; o.size = P->total; o.block = 32; o.caseTimeout = 60;
  o.describe = [D, P](uint64_t idx) { auto ij = P->get(idx); return "A: " + D->str(D->get(ij.first)) + " | B: " + D->str(D->get(ij.second)); };
  o.run = [D, P, perms, sperms, n](uint64_t idx, Ctx& c) { auto ij = P->get(idx); ref::TA A = D->get(ij.first), B = D->get(ij.second); c.evals(); uint64_t w = A.rules.size() + B.rules.size(); if (!ref::emptyLang(A) && !ref::emptyLang(B) && A != B) c.nontrivial();
    bool expect = ref::included(A, B); c.count(expect ? "expect_included" : "expect_not_included");
    auto ordersOf = [](const ref::TA& X) { std::vector<int> ord(X.rules.size()); for (size_t i = 0; i < ord.size(); i++) ord[i] = (int)i; std::vector<std::vector<int>> os; do os.push_back(ord); while (std::next_permutation(ord.begin(), ord.end())); return os; };
    auto oa = ordersOf(A), ob = ordersOf(B);
    for (auto& pa : perms) for (auto& pb : perms) for (int emb = 0; emb < 2; emb++) for (auto& sp : sperms) for (auto& odA : oa) for (auto& odB : ob) {
      ExplicitTreeAut a = buildVariant(A, [&](size_t q) { return emb ? 7 * pa[q] + 3 : pa[q]; }, sp, odA), b = buildVariant(B, [&](size_t q) { return emb ? 5 * pb[q] + 1 : pb[q]; }, sp, odB);
      for (auto& v : VAR) { std::string what; int g = c01::callIncl(a, b, v, &what); c.count("calls"); if (g != (expect ? 1 : 0)) {
          std::string tag = "A states:"; for (int q = 0; q < n; q++) tag += " " + std::to_string(q) + "->" + std::to_string(emb ? 7 * pa[q] + 3 : pa[q]); tag += " B states:"; for (int q = 0; q < n; q++) tag += " " + std::to_string(q) + "->" + std::to_string(emb ? 5 * pb[q] + 1 : pb[q]); tag += " symbol ids:"; for (int s : sp) tag += " " + std::to_string(s);
          c.viol(std::string("renamed twin of a pair/") + v.name, "inclusion_verdict_changed_under_renaming", {}, "A: " + D->str(A) + " | B: " + D->str(B) + " | " + tag + " expected=" + std::to_string(expect) + " got=" + std::to_string(g) + " " + what + "\n--- A (timbuk)\n" + dom::timbuk(A, D->sig, "A") + "--- B (timbuk)\n" + dom::timbuk(B, D->sig, "B"), w); return; } } } };
  env.parallel(o);
}


// renamed twins of pairs of TRIMMED automata over an alphabet with unary AND binary symbols (reaches the upward/downward antichain code with several
// macro-states per state): all state bijections of both operands x 2 embeddings x ALL symbol-id permutations x {ascending, descending} insertion order,
// the four no-simulation variants
static void smallPairsTrim(Env& env, const std::string& stage, int n, const dom::Alphabet& sig, int ka, int kb, bool all8 = false) {
  auto DA = std::make_shared<dom::TADomain>(n, sig, ka, false, true); DA->keepTrimmedOnly(); auto DB = std::make_shared<dom::TADomain>(n, sig, kb, false, true); DB->keepTrimmedOnly(); int ns = (int)sig.ranks.size();
  env.noteNum(stage + ".trimmed_automata_A", DA->size()); env.noteNum(stage + ".trimmed_automata_B", DB->size());
  std::vector<std::vector<size_t>> perms; { std::vector<size_t> p(n); for (int i = 0; i < n; i++) p[i] = i; do perms.push_back(p); while (std::next_permutation(p.begin(), p.end())); }
  std::vector<std::vector<int>> sperms; { std::vector<int> p(ns); for (int i = 0; i < ns; i++) p[i] = i; do sperms.push_back(p); while (std::next_permutation(p.begin(), p.end())); }
  uint64_t NB = DB->size(); ParallelOpts o; o.stage = stage; o.size = (uint64_t)DA->size() * NB; o.block = 16; o.caseTimeout = 60;
  o.describe = [DA, DB, NB](uint64_t idx) { return "A: " + DA->str(DA->get(idx / NB)) + " | B: " + DA->str(DB->get(idx % NB)); };
  o.run = [DA, DB, NB, perms, sperms, n, all8](uint64_t idx, Ctx& c) { ref::TA A = DA->get(idx / NB), B = DB->get(idx % NB); c.evals(); uint64_t w = A.rules.size() + B.rules.size(); if (A != B) c.nontrivial(); bool expect = ref::included(A, B); c.count(expect ? "expect_included" : "expect_not_included");
    static const int NV5[5] = {0, 2, 3, 4, 6}; static const int NV8[8] = {0, 1, 2, 3, 4, 5, 6, 7}; std::vector<int> NV(all8 ? NV8 : NV5, all8 ? NV8 + 8 : NV5 + 5);   // the four no-simulation variants + non-recursive downward WITH simulation (its per-position antichain is observed through a guarded hook)
    for (auto& pa : perms) for (auto& pb : perms) for (int emb = 0; emb < 2; emb++) for (auto& sp : sperms) for (int od = 0; od < 2; od++) {
      std::vector<int> oa(A.rules.size()), ob(B.rules.size()); for (size_t i = 0; i < oa.size(); i++) oa[i] = od ? (int)(oa.size() - 1 - i) : (int)i; for (size_t i = 0; i < ob.size(); i++) ob[i] = od ? (int)(ob.size() - 1 - i) : (int)i;
      ExplicitTreeAut a = buildVariant(A, [&](size_t q) { return emb ? 7 * pa[q] + 3 : pa[q]; }, sp, oa), b = buildVariant(B, [&](size_t q) { return emb ? 5 * pb[q] + 1 : pb[q]; }, sp, ob);
      for (int vi : NV) { const auto& v = VAR[vi]; std::string what; c01::g_internalViolation.clear(); int g = c01::callIncl(a, b, v, &what); c.count("calls");
        if (!c01::g_internalViolation.empty()) { c.viol(std::string("renamed twin of a pair/") + v.name, "internal_antichain_invariant_broken_under_renaming", {}, "A: " + DA->str(A) + " | B: " + DA->str(B) + " | " + c01::g_internalViolation, w); c01::g_internalViolation.clear(); return; }
        if (g != (expect ? 1 : 0)) {
          std::string tag = "A states:"; for (int q = 0; q < n; q++) tag += " " + std::to_string(q) + "->" + std::to_string(emb ? 7 * pa[q] + 3 : pa[q]); tag += " B states:"; for (int q = 0; q < n; q++) tag += " " + std::to_string(q) + "->" + std::to_string(emb ? 5 * pb[q] + 1 : pb[q]); tag += " symbol ids:"; for (int s : sp) tag += " " + std::to_string(s); tag += od ? " descending insertion" : " ascending insertion";
          c.viol(std::string("renamed twin of a pair/") + v.name, "inclusion_verdict_changed_under_renaming", {}, "A: " + DA->str(A) + " | B: " + DA->str(B) + " | " + tag + " expected=" + std::to_string(expect) + " got=" + std::to_string(g) + " " + what + "\n--- A (timbuk)\n" + dom::timbuk(A, DA->sig, "A") + "--- B (timbuk)\n" + dom::timbuk(B, DA->sig, "B"), w); return; } } } };
  env.parallel(o);
}

// ---------------------------------------------------------------- corpus
static std::string repoDir() { const char* e = getenv("VERIF_REPO"); return e && *e ? e : VERIF_REPO; }
static std::vector<std::string> listDir(const std::string& d) { std::vector<std::string> r; DIR* dir = opendir(d.c_str()); if (!dir) return r; while (dirent* e = readdir(dir)) { std::string n = e->d_name; if (n[0] == '.') continue; r.push_back(n); } closedir(dir); std::sort(r.begin(), r.end()); return r; }
static std::string slurp(const std::string& p) { std::ifstream f(p); std::stringstream ss; ss << f.rdbuf(); return ss.str(); }
struct Corpus { std::vector<std::string> names, texts; };
static std::shared_ptr<Corpus> loadCorpus(const std::string& rel, size_t maxBytes) { auto C = std::make_shared<Corpus>(); std::string d = repoDir() + "/" + rel; for (auto& n : listDir(d)) { std::string t = slurp(d + "/" + n); if (t.empty() || t.size() > maxBytes) continue; VATA::Parsing::TimbukParser par; try { ExplicitTreeAut a; a.LoadFromString(par, t); } catch (std::exception&) { continue; } C->names.push_back(rel + "/" + n); C->texts.push_back(t); } return C; }
static ExplicitTreeAut loadText(const std::string& t) { VATA::Parsing::TimbukParser par; ExplicitTreeAut a; a.LoadFromString(par, t); return a; }
static bool incl(const ExplicitTreeAut& a, const ExplicitTreeAut& b) { InclParam ip; return ExplicitTreeAut::CheckInclusion(a, b, ip); }
struct ReF : public AbstractReindexF { std::function<size_t(size_t)> f; AutBase::StateType operator[](const AutBase::StateType& s) override { return f(s); } AutBase::StateType at(const AutBase::StateType& s) const override { return f(s); } };

// one automaton: A == Reduce(A) == RemoveUseless(A) == RemoveUnreachable(A) == reload(dump(A)) == pi(A) for a fixed, listed family of renamings
static void corpusSingle(Env& env, const std::string& stage, const std::string& rel, size_t maxBytes, double cap) {
  auto C = loadCorpus(rel, maxBytes); env.noteNum(stage + ".automata", C->names.size());
  static const char* FORMS[] = {"Reduce", "RemoveUselessStates", "RemoveUnreachableStates", "reload(dump)", "reverse numbering", "cyclic shift by 1", "cyclic shift by n/2", "q->7q+3", "reversed rule order"};
  ParallelOpts o; o.stage = stage; o.size = C->names.size() * 9; o.block = 1; o.caseTimeout = cap; o.hangIsCap = true;
  o.describe = [C](uint64_t i) { return C->names[i / 9] + " form " + FORMS[i % 9]; };
  o.run = [C](uint64_t idx, Ctx& c) { const std::string& name = C->names[idx / 9]; int form = idx % 9; c.evals(); c.nontrivial();
    try { ExplicitTreeAut a = loadText(C->texts[idx / 9]); ExplicitTreeAut b; std::unordered_set<size_t> used = a.GetUsedStates(); size_t n = 0; for (auto q : used) n = std::max(n, q + 1);
      if (c.wantSample() && idx % 9 == 0) c.sample(name + " (" + std::to_string(dom::countRules(a)) + " rules, " + std::to_string(used.size()) + " states)");
      switch (form) { case 0: b = a.Reduce(); break; case 1: b = a.RemoveUselessStates(); break; case 2: b = a.RemoveUnreachableStates(); break;
        case 3: { VATA::Serialization::TimbukSerializer ser; b = loadText(a.DumpToString(ser)); break; }
        case 4: { ReF f; f.f = [n](size_t q) { return n - 1 - q; }; b = a.ReindexStates(f); break; } case 5: { ReF f; f.f = [n](size_t q) { return (q + 1) % n; }; b = a.ReindexStates(f); break; }
        case 6: { ReF f; f.f = [n](size_t q) { return (q + n / 2) % n; }; b = a.ReindexStates(f); break; } case 7: { ReF f; f.f = [](size_t q) { return 7 * q + 3; }; b = a.ReindexStates(f); break; }
        default: { std::vector<ExplicitTreeAut::Transition> ts; for (auto t : a) ts.push_back(t); for (auto it = ts.rbegin(); it != ts.rend(); ++it) b.AddTransition(*it); for (auto q : a.GetFinalStates()) b.SetStateFinal(q); } }
      bool ab = incl(a, b), ba = incl(b, a); c.count("equivalence_checks");
      if (!ab || !ba) c.viol(std::string("corpus: A equivalent to ") + FORMS[form], !ab ? "A_not_included_in_its_transformed_form" : "transformed_form_not_included_in_A", {}, name + " form " + FORMS[form]);
      if (a.IsLangEmpty() != b.IsLangEmpty()) c.viol(std::string("corpus: A equivalent to ") + FORMS[form], "emptiness_verdict_changed", {}, name + " form " + FORMS[form]);
      if (form >= 4) { ref::TA ra = dom::readBack(a.Reduce()), rb = dom::readBack(b.Reduce()), ua = dom::readBack(a.RemoveUselessStates()), ub = dom::readBack(b.RemoveUselessStates());
        if (ua.states().size() != ub.states().size() || ua.rules.size() != ub.rules.size()) c.viol("corpus: size of RemoveUselessStates under renaming", "result_size_changed", {}, name + " form " + FORMS[form]);
        if (ra.states().size() != rb.states().size()) c.viol("corpus: size of Reduce under renaming", "result_size_changed", {}, name + " form " + FORMS[form] + ": " + std::to_string(ra.states().size()) + " vs " + std::to_string(rb.states().size()) + " states"); }
    } catch (std::exception& e) { c.viol("corpus: single automaton", "exception", {}, name + " " + e.what()); } };
  env.parallel(o);
}

// ordered pairs: all 8 variants agree (and with the shipped table where one exists); A<=A, A<=A u B, A n B<=A
static void corpusPairs(Env& env, const std::string& stage, const std::string& rel, size_t maxBytes, double cap, const std::string& tableRel) {
  auto C = loadCorpus(rel, maxBytes); size_t N = C->names.size(); env.noteNum(stage + ".automata", N);
  auto table = std::make_shared<std::map<std::pair<std::string, std::string>, int>>();
  if (!tableRel.empty()) { std::ifstream f(repoDir() + "/" + tableRel); std::string a, b; int v; while (f >> a >> b >> v) (*table)[{a, b}] = v; env.noteNum(stage + ".shipped_answers", table->size()); }
  ParallelOpts o; o.stage = stage; o.size = N * N * 9; o.block = 1; o.caseTimeout = cap; o.hangIsCap = true;
  o.describe = [C, N](uint64_t i) { return C->names[i / 9 / N] + " vs " + C->names[i / 9 % N] + " step " + std::to_string(i % 9); };
  o.run = [C, N, table](uint64_t idx, Ctx& c) { size_t i = idx / 9 / N, j = idx / 9 % N; int step = idx % 9; c.evals(); if (i != j) c.nontrivial();
    auto base = [](const std::string& s) { return s.substr(s.rfind('/') + 1); };
    try { ExplicitTreeAut a = loadText(C->texts[i]), b = loadText(C->texts[j]);
      if (step < 8) { std::string what; int g = c01::callIncl(a, b, VAR[step], &what); int r = c01::callIncl(a, b, VAR[0], &what); c.count("variant_calls"); c.count(r == 1 ? "included" : "not_included");
        if (g != r) c.viol(std::string("corpus: variants agree/") + VAR[step].name, "verdict_differs_from_up_nosim", {}, C->names[i] + " <= " + C->names[j] + ": " + VAR[step].name + "=" + std::to_string(g) + " up_nosim=" + std::to_string(r) + " " + what);
        auto it = table->find({base(C->names[i]), base(C->names[j])}); if (it != table->end()) { c.count("compared_with_shipped_answer"); if (g != it->second) c.viol(std::string("corpus: shipped answers/") + VAR[step].name, g == 1 ? "says_included_but_shipped_answer_is_not" : "says_not_included_but_shipped_answer_is", {}, C->names[i] + " <= " + C->names[j] + ": got " + std::to_string(g) + " shipped " + std::to_string(it->second)); }
        if (i == j && g != 1) c.viol(std::string("corpus: A <= A/") + VAR[step].name, "reflexivity_violated", {}, C->names[i]);
      } else { ExplicitTreeAut u = ExplicitTreeAut::Union(a, b), x = ExplicitTreeAut::Intersection(a, b), xb = ExplicitTreeAut::IntersectionBU(a, b); c.count("law_checks");
        if (!incl(a, u) || !incl(b, u)) c.viol("corpus: A <= A u B", "law_violated", {}, C->names[i] + " , " + C->names[j]);
        if (!incl(x, a) || !incl(x, b)) c.viol("corpus: A n B <= A", "law_violated", {"Intersection"}, C->names[i] + " , " + C->names[j]);
        if (!incl(xb, a) || !incl(xb, b) || !incl(x, xb) || !incl(xb, x)) c.viol("corpus: A n B <= A", "law_violated", {"IntersectionBU"}, C->names[i] + " , " + C->names[j]);
        bool ab = incl(a, b); if (ab && !incl(u, b)) c.viol("corpus: A <= B implies A u B <= B", "law_violated", {}, C->names[i] + " , " + C->names[j]); if (ab && (!incl(a, x))) c.viol("corpus: A <= B implies A <= A n B", "law_violated", {}, C->names[i] + " , " + C->names[j]); }
    } catch (std::exception& e) { c.viol("corpus: pair", "exception", {}, C->names[i] + " , " + C->names[j] + " " + e.what()); } };
  env.parallel(o);
}
// transitivity on every triple whose two premises hold
static void corpusTriples(Env& env, const std::string& stage, const std::string& rel, size_t maxBytes, double cap) {
  auto C = loadCorpus(rel, maxBytes); size_t N = C->names.size(); env.noteNum(stage + ".automata", N);
  // verdict matrix with the default variant, computed once in the parent (N^2 calls)
  auto Mx = std::make_shared<std::vector<std::vector<int>>>(N, std::vector<int>(N, -1));
  ParallelOpts o; o.stage = stage; o.size = N * N; o.block = 1; o.caseTimeout = cap; o.hangIsCap = true;
  o.describe = [C, N](uint64_t i) { return C->names[i / N] + " vs " + C->names[i % N]; };
  o.run = [C, N](uint64_t idx, Ctx& c) { ExplicitTreeAut a = loadText(C->texts[idx / N]), b = loadText(C->texts[idx % N]); c.evals(); c.emit(std::to_string(idx) + " " + (incl(a, b) ? "1" : "0")); };
  env.emits.clear(); env.parallel(o); for (auto& e : env.emits) { size_t sp = e.find(' '); uint64_t idx = std::stoull(e.substr(0, sp)); (*Mx)[idx / N][idx % N] = e[sp + 1] - '0'; } env.emits.clear();
  uint64_t premises = 0, bad = 0; for (size_t i = 0; i < N; i++) for (size_t j = 0; j < N; j++) for (size_t k = 0; k < N; k++) if ((*Mx)[i][j] == 1 && (*Mx)[j][k] == 1) { premises++; if ((*Mx)[i][k] == 0) { bad++; Viol v; v.subcheck = "corpus: transitivity"; v.cls = "law_violated"; v.stage = stage; v.detail = C->names[i] + " <= " + C->names[j] + " <= " + C->names[k] + " but not " + C->names[i] + " <= " + C->names[k]; env.addViol(v); env.violCount["corpus: transitivity|law_violated|"]++; } }
  env.counters["transitivity_triples_with_both_premises"] += premises; env.counters["__nontrivial"] += premises;
}

static Register s1("c19.small.single.n3k3", "C19", "every automaton of TA(3,{a:0,f:1,g:2},<=3) under ALL state bijections x 2 embeddings x ALL symbol-id permutations x ALL rule insertion orders: emptiness, Reduce/trim sizes, simulations", [](Env& e) { smallSingle(e, "c19.small.single.n3k3", 3, dom::Sigma3p(), 3); });
static Register st3("c19.small.single.trim.n3ahk3", "C19", "every TRIMMED automaton of TA(3,{a:0,h:3},<=3) (ternary symbol: contexts with two siblings) under all state bijections x 2 embeddings x symbol-id permutations x all rule insertion orders: emptiness, Reduce/trim sizes, downward AND upward simulation mapped back", [](Env& e) { smallSingle(e, "c19.small.single.trim.n3ahk3", 3, dom::SigmaAH(), 3, true); });
static Register st4("c19.small.single.trim.n3agk4", "C19", "every TRIMMED automaton of TA(3,{a:0,g:2},<=4) under all renamings / orders: incl. upward simulation mapped back", [](Env& e) { smallSingle(e, "c19.small.single.trim.n3agk4", 3, dom::SigmaAG(), 4, true); });
static Register st5("c19.small.single.trim.n3s3pk4", "C19", "every TRIMMED automaton of TA(3,{a:0,f:1,g:2},<=4) under all renamings / orders", [](Env& e) { smallSingle(e, "c19.small.single.trim.n3s3pk4", 3, dom::Sigma3p(), 4, true); });
static Register st6("c19.small.single.trim.n4agk4", "C19", "every TRIMMED automaton of TA(4,{a:0,g:2},<=4) under all 24 state bijections / orders", [](Env& e) { smallSingle(e, "c19.small.single.trim.n4agk4", 4, dom::SigmaAG(), 4, true); });
static Register du1("c19.small.dup.n3agk3", "C19", "every trimmed automaton of TA(3,{a:0,g:2},<=3) x every state duplicated (4 states, rules with equal left-hand sides): invariance under all 24 bijections x 2 constructions, twins simulate each other, 8 inclusion variants say equivalent, Reduce merges the twins", [](Env& e) { smallSingleDup(e, "c19.small.dup.n3agk3", 3, dom::SigmaAG(), 3, 12); });
static Register du2("c19.small.dup.n3s3pk3", "C19", "same over TA(3,{a:0,f:1,g:2},<=3)", [](Env& e) { smallSingleDup(e, "c19.small.dup.n3s3pk3", 3, dom::Sigma3p(), 3, 12); });
static Register du3("c19.small.dup.n3agk4", "C19", "same over TA(3,{a:0,g:2},<=4)", [](Env& e) { smallSingleDup(e, "c19.small.dup.n3agk4", 3, dom::SigmaAG(), 4, 14); });
static Register du4("c19.small.dup.n2s3k4", "C19", "same over TA(2,{a:0,b:0,f:1,g:2},<=4)", [](Env& e) { smallSingleDup(e, "c19.small.dup.n2s3k4", 2, dom::Sigma3(), 4, 14); });
static Register s2("c19.small.single.n3k2", "C19", "TA(3,{a:0,f:1,g:2},<=2) under all renamings/orders", [](Env& e) { smallSingle(e, "c19.small.single.n3k2", 3, dom::Sigma3p(), 2); });
static Register s3("c19.small.pairs.n2t3", "C19", "every pair of TA(2,{a:0,b:0,g:2}) with total <=3 rules under all bijections x embeddings x symbol-id permutations x insertion orders, 8 inclusion variants", [](Env& e) { smallPairs(e, "c19.small.pairs.n2t3", 2, dom::Sigma2(), 2, 3); });
static Register s4("c19.small.pairs.n2k2", "C19", "every pair of TA(2,{a:0,b:0,g:2},<=2 per side) under all renamings/orders, 8 variants", [](Env& e) { smallPairs(e, "c19.small.pairs.n2k2", 2, dom::Sigma2(), 2, 4); });
static Register s5("c19.small.pairs.trim.n2s3.a2b3", "C19", "pairs of TRIMMED automata of TA(2,{a:0,b:0,f:1,g:2}) (A <=2, B <=3 rules) under all state bijections x embeddings x all 24 symbol-id permutations x 2 insertion orders, 4 no-sim variants + down_nonrec_sim", [](Env& e) { smallPairsTrim(e, "c19.small.pairs.trim.n2s3.a2b3", 2, dom::Sigma3(), 2, 3); });
static Register s6("c19.small.pairs.trim.n2s3.a3b3", "C19", "pairs of TRIMMED automata of TA(2,{a:0,b:0,f:1,g:2},<=3 rules) under all renamings", [](Env& e) { smallPairsTrim(e, "c19.small.pairs.trim.n2s3.a3b3", 2, dom::Sigma3(), 3, 3); });
static Register s7("c19.small.pairs.trim.n2s2.a3b3", "C19", "pairs of TRIMMED automata of TA(2,{a:0,b:0,g:2},<=3 rules) under all state bijections x embeddings x all symbol-id permutations x 2 insertion orders, 4 no-sim variants + down_nonrec_sim", [](Env& e) { smallPairsTrim(e, "c19.small.pairs.trim.n2s2.a3b3", 2, dom::Sigma2(), 3, 3); });
static Register s7b("c19.small.pairs.trim.n2s2.a3b3.all8", "C19", "pairs of TRIMMED automata of TA(2,{a:0,b:0,g:2},<=3 rules) under all state bijections x embeddings x all symbol-id permutations x 2 insertion orders, ALL 8 variants (with the simulations the library computes itself)", [](Env& e) { smallPairsTrim(e, "c19.small.pairs.trim.n2s2.a3b3.all8", 2, dom::Sigma2(), 3, 3, true); });
static Register s7c("c19.small.pairs.trim.n2s2.a2b4.all8", "C19", "pairs of TRIMMED automata of TA(2,{a:0,b:0,g:2}): A <=2 x B <=4 rules under all renamings, ALL 8 variants", [](Env& e) { smallPairsTrim(e, "c19.small.pairs.trim.n2s2.a2b4.all8", 2, dom::Sigma2(), 2, 4, true); });
static Register s8("c19.small.pairs.trim.n2s2.a3b5", "C19", "pairs of TRIMMED automata of TA(2,{a:0,b:0,g:2}): A <=3 x B <=5 rules under all renamings", [](Env& e) { smallPairsTrim(e, "c19.small.pairs.trim.n2s2.a3b5", 2, dom::Sigma2(), 3, 5); });
static Register s9("c19.small.pairs.trim.n3abf.a3b2", "C19", "pairs of TRIMMED automata of TA(3,{a:0,b:0,f:1}): A <=3 x B <=2 rules under all 6x6 state bijections x embeddings x all 6 symbol-id permutations x 2 insertion orders, ALL 8 variants", [](Env& e) { smallPairsTrim(e, "c19.small.pairs.trim.n3abf.a3b2", 3, dom::SigmaABF(), 3, 2, true); });
static Register s10("c19.small.pairs.trim.n3abf.a4b2", "C19", "pairs of TRIMMED automata of TA(3,{a:0,b:0,f:1}): A <=4 x B <=2 rules under all renamings, ALL 8 variants", [](Env& e) { smallPairsTrim(e, "c19.small.pairs.trim.n3abf.a4b2", 3, dom::SigmaABF(), 4, 2, true); });
static Register c1("c19.corpus.small.single", "C19", "every file of automata/small_timbuk: equivalent to its reduced / trimmed / reloaded / renamed forms", [](Env& e) { corpusSingle(e, "c19.corpus.small.single", "automata/small_timbuk", 1 << 20, 20); });
static Register c2("c19.corpus.small.pairs", "C19", "all ordered pairs of automata/small_timbuk: 8 variants agree, language laws", [](Env& e) { corpusPairs(e, "c19.corpus.small.pairs", "automata/small_timbuk", 4096, 20, ""); });
static Register c3("c19.corpus.smaller.single", "C19", "tests/aut_timbuk_smaller (20 automata, 159-1402 rules): equivalence with transformed forms", [](Env& e) { corpusSingle(e, "c19.corpus.smaller.single", "tests/aut_timbuk_smaller", 1 << 22, 60); });
static Register c4("c19.corpus.smaller.pairs", "C19", "tests/aut_timbuk_smaller: all 400 ordered pairs, 8 variants agree with each other and with tests/aut_timbuk_smaller_incl.txt, language laws", [](Env& e) { corpusPairs(e, "c19.corpus.smaller.pairs", "tests/aut_timbuk_smaller", 1 << 22, 20, "tests/aut_timbuk_smaller_incl.txt"); });
static Register c5("c19.corpus.smaller.triples", "C19", "tests/aut_timbuk_smaller: transitivity on every triple whose premises hold", [](Env& e) { corpusTriples(e, "c19.corpus.smaller.triples", "tests/aut_timbuk_smaller", 1 << 22, 60); });
static Register c6("c19.corpus.moderate.single", "C19", "automata/moderate_artmc_timbuk (27 automata, up to 2088 rules): equivalence with transformed forms", [](Env& e) { corpusSingle(e, "c19.corpus.moderate.single", "automata/moderate_artmc_timbuk", 1 << 22, 60); });

}  // namespace c19
