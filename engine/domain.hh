// Finite, indexed input domains: index <-> case bijections on [0,N), ordered simplest-first.
#pragma once
#include "ref_ta.hh"
#include <vata/explicit_tree_aut.hh>
#include "runner.hh"
#include <functional>
#include <memory>

namespace dom {

// ranked alphabet: symbol id i has rank ranks[i] and name names[i]
struct Alphabet { std::vector<int> ranks; std::vector<const char*> names;
  std::map<int, size_t> rankMap() const { std::map<int, size_t> m; for (size_t i = 0; i < ranks.size(); i++) m[(int)i] = ranks[i]; return m; } };
inline Alphabet Sigma2() { return {{0, 0, 2}, {"a", "b", "g"}}; }          // a:0 b:0 g:2
inline Alphabet Sigma3() { return {{0, 0, 1, 2}, {"a", "b", "f", "g"}}; }  // a:0 b:0 f:1 g:2
inline Alphabet Sigma3p() { return {{0, 1, 2}, {"a", "f", "g"}}; }         // a:0 f:1 g:2
inline Alphabet SigmaL() { return {{0, 0}, {"a", "b"}}; }
inline Alphabet SigmaAG() { return {{0, 2}, {"a", "g"}}; }
inline Alphabet SigmaAF() { return {{0, 1}, {"a", "f"}}; }
inline Alphabet SigmaAFH() { return {{0, 1, 3}, {"a", "f", "h"}}; }   // a:0 f:1 h:3
inline Alphabet SigmaAH() { return {{0, 3}, {"a", "h"}}; }
// one symbol NAME used with two arities (unusual but legal Timbuk; the shipped corpus has such files): the model keeps them apart as two symbols
inline Alphabet SigmaOv() { return {{0, 0, 2}, {"a", "b", "a"}}; }   // a:0 b:0 a:2
inline Alphabet SigmaOv1() { return {{0, 1, 2}, {"a", "a", "a"}}; }   // a:0 a:1 a:2
inline Alphabet SigmaA() { return {{0}, {"a"}}; }
inline Alphabet SigmaABF() { return {{0, 0, 1}, {"a", "b", "f"}}; }   // a:0 b:0 f:1 — word-like automata: long unary chains and loops, many rules per state
inline Alphabet SigmaABFG1() { return {{0, 0, 1, 1}, {"a", "b", "f", "g"}}; }   // a:0 b:0 f:1 g:1 (two unary symbols)

// TA(n, Sigma, <=k): all automata over states 0..n-1 with at most k rules from the rule universe
// and any final set.  Ordered by number of rules, then combination (lexicographic), then final mask.
struct TADomain {
  int n; Alphabet sig; int maxRules; bool allowNoFinal; bool requireLeafRule; size_t firstNonNullary = 0;
  std::vector<ref::Rule> U;
  struct Item { uint8_t nr; uint8_t fin; uint16_t r[7]; };
  std::vector<Item> items;
  // requireLeafRule: only automata with at least one nullary rule (all others have an empty language); needs the nullary symbols first in Sigma
  TADomain(int n_, const Alphabet& s, int k, bool allowNoFinal_ = true, bool requireLeafRule_ = false) : n(n_), sig(s), maxRules(k), allowNoFinal(allowNoFinal_), requireLeafRule(requireLeafRule_) {
    for (size_t sy = 0; sy < sig.ranks.size(); sy++) {
      int r = sig.ranks[sy]; std::vector<size_t> ch(r, 0);
      while (true) { for (int q = 0; q < n; q++) U.push_back({(int)sy, ch, (size_t)q}); int i = 0; while (i < r && ++ch[i] == (size_t)n) { ch[i] = 0; i++; } if (i == r) break; }
    }
    if (U.size() > 65535 || k > 7) throw std::runtime_error("TADomain too large");
    { bool seenPos = false; for (auto& r : U) { if (!r.ch.empty()) seenPos = true; else { if (seenPos && requireLeafRule) throw std::runtime_error("nullary symbols must come first"); firstNonNullary++; } } }
    for (int nr = 0; nr <= k; nr++) { std::vector<int> pick; gen(0, nr, pick); }
  }
  void gen(size_t from, int left, std::vector<int>& pick) {
    if (left == 0) { if (requireLeafRule && pick.empty()) return; for (unsigned fm = allowNoFinal ? 0 : 1; fm < (1u << n); fm++) { Item it; it.nr = (uint8_t)pick.size(); for (size_t i = 0; i < pick.size(); i++) it.r[i] = (uint16_t)pick[i]; it.fin = (uint8_t)fm; items.push_back(it); } return; }
    for (size_t i = from; i + left <= U.size(); i++) { if (requireLeafRule && pick.empty() && i >= firstNonNullary) break; pick.push_back((int)i); gen(i + 1, left - 1, pick); pick.pop_back(); }
  }
  // keep only automata without useless states and with a non-empty language (inclusion trims its operands first,
  // so every pair is language-equivalent to a pair of these; used to reach more states/rules)
  void keepTrimmedOnly() { std::vector<Item> k; for (size_t i = 0; i < items.size(); i++) { ref::TA A = get(i); if (A.finals.empty() || ref::emptyLang(A)) continue; auto u = ref::useful(A); bool ok = true; for (auto q : A.states()) if (!u.count(q)) ok = false; for (auto& r : A.rules) if (!ref::usefulRule(r, u)) ok = false; if (ok) k.push_back(items[i]); } items.swap(k); }
  size_t size() const { return items.size(); }
  ref::TA get(size_t i) const { ref::TA A; const Item& it = items[i]; for (int k = 0; k < it.nr; k++) A.rules.insert(U[it.r[k]]); for (int q = 0; q < n; q++) if (it.fin >> q & 1) A.finals.insert(q); return A; }
  int numRules(size_t i) const { return items[i].nr; }
  std::string str(const ref::TA& A) const { return A.str(sig.names.data()); }
};


// Ordered pairs (i,j) of a TADomain with numRules(i)+numRules(j) <= totalMax, indexed densely.
struct PairIndex {
  std::vector<uint64_t> off;      // off[i] = first pair index whose left component is i
  std::vector<uint64_t> partners; // number of admissible partners of i (a prefix of the domain)
  uint64_t total = 0;
  PairIndex(const TADomain& D, int totalMax) {
    std::vector<uint64_t> upTo(D.maxRules + 2, 0);   // upTo[k] = #items with nr <= k
    for (size_t i = 0; i < D.size(); i++) for (int k = D.numRules(i); k <= D.maxRules; k++) upTo[k]++;
    off.resize(D.size()); partners.resize(D.size());
    for (size_t i = 0; i < D.size(); i++) { int rest = totalMax - D.numRules(i); uint64_t p = rest < 0 ? 0 : upTo[std::min(rest, D.maxRules)]; off[i] = total; partners[i] = p; total += p; }
  }
  std::pair<size_t, size_t> get(uint64_t idx) const {
    size_t i = std::upper_bound(off.begin(), off.end(), idx) - off.begin() - 1;
    while (partners[i] == 0) i--;   // not reached for valid idx, kept for safety
    return {i, (size_t)(idx - off[i])};
  }
};

// Build the real automaton from the model, symbols are the integer ids (+ optional offset).
inline VATA::ExplicitTreeAut build(const ref::TA& A, bool reverseOrder = false) {
  VATA::ExplicitTreeAut x;
  // reverseOrder: rules in descending order AND the final states declared first, in descending order (the final-state container is a hash set whose
  // iteration order is its history: seed C06c needed a rule-less final state declared before a rule-owning one)
  if (!reverseOrder) { for (auto& r : A.rules) x.AddTransition(r.ch, r.sym, r.par); for (auto f : A.finals) x.SetStateFinal(f); }
  else { for (auto it = A.finals.rbegin(); it != A.finals.rend(); ++it) x.SetStateFinal(*it); for (auto it = A.rules.rbegin(); it != A.rules.rend(); ++it) x.AddTransition(it->ch, it->sym, it->par); }
  return x;
}
inline ref::TA readBack(const VATA::ExplicitTreeAut& x) {
  ref::TA r; for (auto t : x) { ref::Rule z; z.sym = (int)t.GetSymbol(); z.par = t.GetParent(); z.ch = t.GetChildren(); r.rules.insert(z); }
  for (auto f : x.GetFinalStates()) r.finals.insert(f); verif::obs(r.str()); return r;
}
// number of rules yielded by iteration (multiset size; differs from readBack().rules.size() on duplicates)
inline size_t countRules(const VATA::ExplicitTreeAut& x) { size_t n = 0; for (auto t : x) { (void)t; n++; } return n; }

// Timbuk text of a model automaton (state q -> "q<q>"), loadable by every encoding and by `vata`.
inline std::string timbuk(const ref::TA& A, const Alphabet& sig, const std::string& name = "A") {
  std::ostringstream os; os << "Ops";
  for (size_t i = 0; i < sig.ranks.size(); i++) os << " " << sig.names[i] << ":" << sig.ranks[i];
  os << "\nAutomaton " << name << "\nStates"; for (auto q : A.states()) os << " q" << q;
  os << "\nFinal States"; for (auto q : A.finals) os << " q" << q; os << "\nTransitions\n";
  for (auto& r : A.rules) { os << sig.names[r.sym]; if (!r.ch.empty()) { os << "("; for (size_t i = 0; i < r.ch.size(); i++) os << (i ? "," : "") << "q" << r.ch[i]; os << ")"; } os << " -> q" << r.par << "\n"; }
  return os.str();
}

// features of an automaton / pair used to classify violations
inline bool hasBinary(const ref::TA& A) { for (auto& r : A.rules) if (r.ch.size() >= 2) return true; return false; }
inline std::set<int> nullarySyms(const ref::TA& A) { std::set<int> s; for (auto& r : A.rules) if (r.ch.empty()) s.insert(r.sym); return s; }
inline bool hasRulelessState(const ref::TA& A) { auto o = A.owners(); for (auto q : A.states()) if (!o.count(q)) return true; return false; }
inline bool hasUseless(const ref::TA& A) { auto u = ref::useful(A); for (auto q : A.states()) if (!u.count(q)) return true; return false; }

}  // namespace dom
#include "runner.hh"
namespace dom {
// run fn for every automaton of the domain
inline void forEachTA(verif::Env& env, const std::string& stage, std::shared_ptr<TADomain> D,
                      std::function<void(const ref::TA&, size_t, verif::Ctx&)> fn, uint64_t block = 256, double timeout = 10) {
  env.noteNum(stage + ".automata", D->size()); env.noteNum(stage + ".rule_universe", D->U.size());
  verif::ParallelOpts o; o.stage = stage; o.size = D->size(); o.block = block; o.caseTimeout = timeout;
  o.describe = [D](uint64_t i) { return D->str(D->get(i)); };
  o.run = [D, fn](uint64_t i, verif::Ctx& c) { fn(D->get(i), i, c); };
  env.parallel(o);
}

}  // namespace dom
