// E-HIST: breadth-first explicit-state search over operation histories of real objects.
// A state is the history reaching it, replayed on fresh objects; states are de-duplicated by a canonical
// key supplied by the world (abstract values + real sharing pattern).
#pragma once
#include "runner.hh"
#include <memory>
#include <unordered_map>
#include <unordered_set>
#include <iostream>
#include <algorithm>

namespace hist {

inline std::string hash128(const std::string& s) {
  uint64_t a = 1469598103934665603ull, b = 0x9e3779b97f4a7c15ull;
  for (unsigned char c : s) { a = (a ^ c) * 1099511628211ull; b = (b + c) * 0xff51afd7ed558ccdull; b ^= b >> 29; }
  char buf[40]; snprintf(buf, sizeof buf, "%016llx%016llx", (unsigned long long)a, (unsigned long long)b); return buf;
}
inline std::string histStr(const std::vector<int>& h) { std::string s; for (size_t i = 0; i < h.size(); i++) s += (i ? "," : "") + std::to_string(h[i]); return s; }
inline std::vector<int> parseHist(const std::string& s) { std::vector<int> h; size_t p = 0; while (p < s.size()) { size_t q = s.find(',', p); if (q == std::string::npos) q = s.size(); if (q > p) h.push_back(atoi(s.substr(p, q - p).c_str())); p = q + 1; } return h; }

struct StepResult {
  bool enabled = true;       // false: the last op is not offered in the state reached by the prefix
  std::string key;           // canonical key of the reached state (values + sharing pattern)
  std::string prefixKey;     // key of the state before the last op (replay-consistency assertion)
  std::string absKey;        // abstract values only (may be empty: no function-of-values oracle)
  std::string obs;           // digest of observations that must be a function of absKey
  bool sharing = false;      // real structural sharing present in the reached state
};

struct Spec {
  std::string stage; int menuSize = 0; int maxDepth = 0; uint64_t stateBudget = 5000000; double caseTimeout = 20;
  // replay `h` on fresh objects, evaluate the invariants in the reached state (violations go to ctx)
  std::function<StepResult(const std::vector<int>& h, verif::Ctx& ctx)> run;
  std::function<std::string(const std::vector<int>& h)> describe;   // human readable history
};

struct Node { std::vector<uint8_t> h; std::string key; };

inline void bfs(verif::Env& env, const Spec& sp) {
  using namespace verif;
  if (!env.replayArg.empty() || env.only) {   // replay one history without the explorer
    std::vector<int> h = parseHist(env.replayArg); Ctx ctx; ctx.verbose = true; StepResult r = sp.run(h, ctx);
    std::cerr << "replay history [" << histStr(h) << "] = " << sp.describe(h) << "\n  enabled=" << r.enabled << " key=" << r.key << "\n";
    for (auto& v : ctx.viols_) { Viol x = v; x.stage = sp.stage; env.addViol(x); env.violCount[x.subcheck + "|" + x.cls + "|" + x.feats]++; }
    StepResult r2 = sp.run(h, ctx); if (r2.key != r.key) { Viol x; x.subcheck = "explorer"; x.cls = "replay_not_deterministic"; x.stage = sp.stage; x.detail = "REPLAY-ARG: " + histStr(h) + "\nkeys differ between two replays"; env.addViol(x); env.violCount["explorer|replay_not_deterministic|"]++; }
    return;
  }
  auto frontier = std::make_shared<std::vector<Node>>();
  std::unordered_set<std::string> seen; std::unordered_map<std::string, std::pair<std::string, std::string>> absObs;   // absKey -> (obs, history)
  { Ctx c0; StepResult r0 = sp.run({}, c0); frontier->push_back({{}, hash128(r0.key)}); seen.insert(hash128(r0.key)); }
  uint64_t states = 1, transitions = 0, sharingStates = 0; int depthDone = 0; bool budgetHit = false;
  std::vector<uint64_t> perDepth = {1};
  for (int d = 1; d <= sp.maxDepth && !frontier->empty(); d++) {
    ParallelOpts o; o.stage = sp.stage + ".depth" + std::to_string(d); o.size = (uint64_t)frontier->size() * sp.menuSize; o.block = 64; o.caseTimeout = sp.caseTimeout;
    int menu = sp.menuSize; auto fr = frontier; auto run = sp.run; auto describe = sp.describe;
    o.describe = [fr, menu, describe](uint64_t idx) { std::vector<int> h((*fr)[idx / menu].h.begin(), (*fr)[idx / menu].h.end()); h.push_back((int)(idx % menu)); return "REPLAY-ARG: " + histStr(h) + "\n" + describe(h); };
    o.run = [fr, menu, run, describe](uint64_t idx, Ctx& c) {
      const Node& nd = (*fr)[idx / menu]; std::vector<int> h(nd.h.begin(), nd.h.end()); h.push_back((int)(idx % menu));
      size_t before = c.viols_.size();
      StepResult r = run(h, c);
      if (!r.enabled) { c.viols_.resize(before); return; }
      // every violation found in this state carries the history as its replay argument
      for (size_t i = before; i < c.viols_.size(); i++) { c.viols_[i].detail = "REPLAY-ARG: " + histStr(h) + "\nhistory: " + describe(h) + "\n" + c.viols_[i].detail; c.viols_[i].weight = h.size(); }
      if (hash128(r.prefixKey) != nd.key) c.viol("explorer", "replay_of_prefix_reached_a_different_state", {}, "REPLAY-ARG: " + histStr(h) + "\nhistory: " + describe(h) + "\nthe canonical key of the prefix differs from the key recorded when it was first reached (hidden state not captured, or non-determinism)", h.size());
      c.count("__transitions"); if (r.sharing) c.count("transitions_into_sharing_states");
      c.emit(hash128(r.key) + "\t" + histStr(h) + "\t" + (r.absKey.empty() ? "-" : hash128(r.absKey)) + "\t" + (r.absKey.empty() ? "-" : hash128(r.obs)) + "\t" + (r.sharing ? "1" : "0"));
      if (c.wantSample() && h.size() >= 3 && r.sharing) c.sample(describe(h));
    };
    env.emits.clear();
    bool all = env.parallel(o);
    auto next = std::make_shared<std::vector<Node>>();
    std::sort(env.emits.begin(), env.emits.end());   // deterministic choice of the representative history
    for (auto& e : env.emits) {
      size_t t1 = e.find('\t'), t2 = e.find('\t', t1 + 1), t3 = e.find('\t', t2 + 1), t4 = e.find('\t', t3 + 1);
      std::string key = e.substr(0, t1), hs = e.substr(t1 + 1, t2 - t1 - 1), ak = e.substr(t2 + 1, t3 - t2 - 1), ob = e.substr(t3 + 1, t4 - t3 - 1); bool sh = e.substr(t4 + 1) == "1";
      if (ak != "-") { auto it = absObs.find(ak); if (it == absObs.end()) absObs[ak] = {ob, hs}; else if (it->second.first != ob) {
          Viol v; v.subcheck = "observations"; v.cls = "outcome_depends_on_history_not_only_on_operand_values"; v.stage = sp.stage; v.weight = d;
          v.detail = "REPLAY-ARG: " + hs + "\nhistory: " + sp.describe(parseHist(hs)) + "\nreaches the same abstract values as history [" + it->second.second + "] = " + sp.describe(parseHist(it->second.second)) + " but the observed verdicts/results differ";
          env.addViol(v); env.violCount["observations|outcome_depends_on_history_not_only_on_operand_values|"]++; } }
      if (seen.insert(key).second) { states++; if (sh) sharingStates++; if (states <= sp.stateBudget) { Node n; auto h = parseHist(hs); n.h.assign(h.begin(), h.end()); n.key = key; next->push_back(n); } else budgetHit = true; }
    }
    env.emits.clear();
    perDepth.push_back(next->size());
    if (!all) break;
    depthDone = d; frontier = next;
    if (budgetHit) break;
  }
  transitions = env.counters["__transitions"];
  env.counters["__states"] = states; env.counters["__evals"] = transitions; env.counters["__nontrivial"] = sharingStates;
  env.noteNum(sp.stage + ".states", states); env.noteNum(sp.stage + ".transitions", transitions); env.noteNum(sp.stage + ".depth_completed", depthDone);
  env.noteNum(sp.stage + ".states_with_real_sharing", sharingStates);
  env.note(sp.stage + ".saturated", frontier->empty() ? "true" : "false");
  env.note(sp.stage + ".state_budget_hit", budgetHit ? "true" : "false");
  std::string pd = "["; for (size_t i = 0; i < perDepth.size(); i++) pd += (i ? "," : "") + std::to_string(perDepth[i]); env.note(sp.stage + ".new_states_per_depth", pd + "]");
  if (budgetHit) env.complete = false;
}

}  // namespace hist
