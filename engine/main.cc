#include "runner.hh"
#include <algorithm>
#include <cstdlib>
#include <cstring>
#include <fstream>
#include <iostream>
#include <sys/personality.h>
#include <unistd.h>

using namespace verif;

static void usage() {
  std::cerr << "usage: vcheck list | vcheck run <check> [--tier quick|thorough] [--workers N] [--seed S] [--out FILE]\n"
               "              [--deadline SECONDS] [--only STAGE:INDEX [--with-prefix]] [--replay ARG] [--timeout-scale X]\n";
  exit(2);
}

int main(int argc, char** argv) {
  // deterministic addresses: re-exec once with ASLR disabled (best effort)
  if (!getenv("VCHECK_NOASLR")) {
    setenv("VCHECK_NOASLR", "1", 1);
    int pers = personality(0xffffffff);
    if (pers != -1 && !(pers & ADDR_NO_RANDOMIZE) && personality(pers | ADDR_NO_RANDOMIZE) != -1) execv("/proc/self/exe", argv);
  }
  if (argc < 2) usage();
  std::string cmd = argv[1];
  if (cmd == "list") { for (auto& c : registry()) std::cout << c.name << "\t" << c.property << "\t" << c.descr << "\n"; return 0; }
  if (cmd != "run" || argc < 3) usage();
  Env env; env.checkName = argv[2]; env.tier = "quick"; std::string out;
  for (int i = 3; i < argc; i++) {
    std::string a = argv[i]; auto next = [&]() -> std::string { if (i + 1 >= argc) usage(); return argv[++i]; };
    if (a == "--tier") env.tier = next(); else if (a == "--workers") env.workers = std::max(1, atoi(next().c_str()));
    else if (a == "--seed") env.seed = strtoull(next().c_str(), nullptr, 10); else if (a == "--out") out = next();
    else if (a == "--deadline") env.deadline = nowMono() + atof(next().c_str());
    else if (a == "--timeout-scale") env.timeoutScale = atof(next().c_str());
    else if (a == "--only") { std::string s = next(); size_t c = s.rfind(':'); if (c == std::string::npos) usage(); env.only = true; env.onlyStage = s.substr(0, c); env.onlyIndex = strtoull(s.c_str() + c + 1, nullptr, 10); }
    else if (a == "--replay") env.replayArg = next();
    else if (a == "--with-prefix") env.onlyWithPrefix = true;
    else usage();
  }
  const Check* chk = nullptr; for (auto& c : registry()) if (c.name == env.checkName) chk = &c;
  if (!chk) { std::cerr << "unknown check " << env.checkName << "\n"; return 2; }
  env.property = chk->property;
  double t0 = nowMono();
  chk->body(env);
  double wall = nowMono() - t0;
  std::ostringstream js;
  js << "{\"check\":\"" << jsonEscape(env.checkName) << "\",\"property\":\"" << env.property << "\",\"tier\":\"" << env.tier << "\",\"variant\":\"" << VERIF_VARIANT
     << "\",\"descr\":\"" << jsonEscape(chk->descr) << "\",\"seed\":" << env.seed << ",\"complete\":" << (env.complete ? "true" : "false") << ",\"wall_s\":" << wall << ",\n\"stages\":[";
  for (size_t i = 0; i < env.stagesJson.size(); i++) js << (i ? "," : "") << env.stagesJson[i];
  js << "],\n\"counters\":{"; bool first = true;
  for (auto& kv : env.counters) { js << (first ? "" : ",") << "\"" << jsonEscape(kv.first) << "\":" << kv.second; first = false; }
  js << "},\n\"info\":{"; first = true;
  for (auto& kv : env.info) { js << (first ? "" : ",") << "\"" << jsonEscape(kv.first) << "\":" << kv.second; first = false; }
  js << "},\n\"samples\":["; for (size_t i = 0; i < env.samples.size(); i++) js << (i ? "," : "") << "\"" << jsonEscape(env.samples[i]) << "\"";
  js << "],\n\"violations\":["; first = true;
  for (auto& kv : env.violExamples) {
    const Viol& v0 = kv.second[0];
    js << (first ? "" : ",") << "\n {\"subcheck\":\"" << jsonEscape(v0.subcheck) << "\",\"class\":\"" << jsonEscape(v0.cls) << "\",\"features\":\"" << jsonEscape(v0.feats)
       << "\",\"count\":" << env.violCount[kv.first] << ",\"examples\":[";
    for (size_t i = 0; i < kv.second.size(); i++) { const Viol& v = kv.second[i];
      js << (i ? "," : "") << "{\"stage\":\"" << jsonEscape(v.stage) << "\",\"index\":" << v.index << ",\"weight\":" << v.weight << ",\"detail\":\"" << jsonEscape(v.detail) << "\"}"; }
    js << "]}"; first = false;
  }
  js << "]}\n";
  if (out.empty()) std::cout << js.str(); else { std::ofstream f(out); f << js.str(); }
  if (env.only) { for (auto& kv : env.violExamples) for (auto& v : kv.second) std::cerr << "VIOL " << kv.first << " :: " << v.detail << "\n"; }
  return env.violExamples.empty() ? 0 : 1;
}
