// Boring reference model of nondeterministic finite word automata + harness glue for ExplicitFiniteAut.
#pragma once
#include <algorithm>
#include <cstdint>
#include <map>
#include <set>
#include <sstream>
#include <string>
#include <tuple>
#include <vector>
#include <vata/explicit_finite_aut.hh>
#include "runner.hh"
#include "explicit_finite_aut_core.hh"
#include "loadable_aut.hh"

namespace ref {

struct NFA {
  std::set<size_t> starts, finals; std::set<std::tuple<size_t, int, size_t>> edges;   // (q, a, r)
  bool operator==(const NFA& o) const { return starts == o.starts && finals == o.finals && edges == o.edges; }
  bool operator!=(const NFA& o) const { return !(*this == o); }
  std::set<size_t> states() const { std::set<size_t> s(starts); s.insert(finals.begin(), finals.end()); for (auto& e : edges) { s.insert(std::get<0>(e)); s.insert(std::get<2>(e)); } return s; }
  std::set<int> symbols() const { std::set<int> s; for (auto& e : edges) s.insert(std::get<1>(e)); return s; }
  std::string str() const { std::ostringstream os; os << "I={"; bool f = true; for (auto q : starts) { os << (f ? "" : ",") << q; f = false; } os << "} F={"; f = true; for (auto q : finals) { os << (f ? "" : ",") << q; f = false; } os << "}";
    for (auto& e : edges) os << " " << std::get<0>(e) << "-" << char('a' + std::get<1>(e)) << "->" << std::get<2>(e); return os.str(); }
};

inline std::set<size_t> fwdReach(const NFA& A) { std::set<size_t> R(A.starts); bool ch = true; while (ch) { ch = false; for (auto& e : A.edges) if (R.count(std::get<0>(e)) && R.insert(std::get<2>(e)).second) ch = true; } return R; }
inline std::set<size_t> bwdReach(const NFA& A) { std::set<size_t> R(A.finals); bool ch = true; while (ch) { ch = false; for (auto& e : A.edges) if (R.count(std::get<2>(e)) && R.insert(std::get<0>(e)).second) ch = true; } return R; }
inline bool emptyLang(const NFA& A) { auto R = fwdReach(A); for (auto f : A.finals) if (R.count(f)) return false; return true; }
inline bool acceptsEps(const NFA& A) { for (auto q : A.starts) if (A.finals.count(q)) return true; return false; }

// exact inclusion: all reachable pairs (state of A, set of states of B reached by the same word)
inline bool included(const NFA& A, const NFA& B) {
  std::vector<size_t> bs; { auto s = B.states(); bs.assign(s.begin(), s.end()); } if (bs.size() > 62) throw std::runtime_error("ref::included(NFA): too many states");
  std::map<size_t, int> bidx; for (size_t i = 0; i < bs.size(); i++) bidx[bs[i]] = (int)i;
  typedef uint64_t M; M bfin = 0, bst = 0; for (auto f : B.finals) bfin |= M(1) << bidx[f]; for (auto s : B.starts) bst |= M(1) << bidx[s];
  std::set<int> syms = A.symbols();
  std::set<std::pair<size_t, M>> seen; std::vector<std::pair<size_t, M>> todo; for (auto q : A.starts) if (seen.insert({q, bst}).second) todo.push_back({q, bst});
  while (!todo.empty()) { auto p = todo.back(); todo.pop_back();
    if (A.finals.count(p.first) && !(p.second & bfin)) return false;
    for (int a : syms) { M S = 0; for (auto& e : B.edges) if (std::get<1>(e) == a && ((p.second >> bidx[std::get<0>(e)]) & 1)) S |= M(1) << bidx[std::get<2>(e)];
      for (auto& e : A.edges) if (std::get<0>(e) == p.first && std::get<1>(e) == a) { std::pair<size_t, M> n{std::get<2>(e), S}; if (seen.insert(n).second) todo.push_back(n); } } }
  return true;
}
inline bool equalLang(const NFA& A, const NFA& B) { return included(A, B) && included(B, A); }
template <class F> inline NFA mapStatesF(const NFA& A, F f) { NFA r; for (auto q : A.starts) r.starts.insert(f(q)); for (auto q : A.finals) r.finals.insert(f(q)); for (auto& e : A.edges) r.edges.insert(std::make_tuple(f(std::get<0>(e)), std::get<1>(e), f(std::get<2>(e)))); return r; }
inline NFA shift(const NFA& A, size_t d) { return mapStatesF(A, [d](size_t q) { return q + d; }); }
inline NFA plainUnion(const NFA& A, const NFA& B) { NFA r = A; r.starts.insert(B.starts.begin(), B.starts.end()); r.finals.insert(B.finals.begin(), B.finals.end()); r.edges.insert(B.edges.begin(), B.edges.end()); return r; }
inline NFA disjointUnion(const NFA& A, const NFA& B) { size_t off = 0; for (auto q : A.states()) off = std::max(off, q + 1); return plainUnion(A, shift(B, off)); }
inline NFA product(const NFA& A, const NFA& B, size_t W = 1000) { NFA r; for (auto p : A.starts) for (auto q : B.starts) r.starts.insert(p * W + q); for (auto p : A.finals) for (auto q : B.finals) r.finals.insert(p * W + q);
  for (auto& e : A.edges) for (auto& g : B.edges) if (std::get<1>(e) == std::get<1>(g)) r.edges.insert(std::make_tuple(std::get<0>(e) * W + std::get<0>(g), std::get<1>(e), std::get<2>(e) * W + std::get<2>(g))); return r; }
inline NFA mirror(const NFA& A) { NFA r; r.starts = A.finals; r.finals = A.starts; for (auto& e : A.edges) r.edges.insert(std::make_tuple(std::get<2>(e), std::get<1>(e), std::get<0>(e))); return r; }
// direct membership (second oracle)
inline bool accepts(const NFA& A, const std::vector<int>& w) { std::set<size_t> cur(A.starts); for (int a : w) { std::set<size_t> nx; for (auto& e : A.edges) if (std::get<1>(e) == a && cur.count(std::get<0>(e))) nx.insert(std::get<2>(e)); cur = nx; } for (auto q : cur) if (A.finals.count(q)) return true; return false; }

// ---- glue
// symbols a,b,c,d are registered once in the (process-wide) NFA alphabet as ids 0..3 and the start symbol "x" as id 4,
// so that results can be dumped; the model's symbol ints are these ids
inline VATA::ExplicitFiniteAut::SymbolType startSymbol() {
  static VATA::ExplicitFiniteAut::SymbolType sx = [] { VATA::ExplicitFiniteAut t; auto tr = t.GetAlphabet()->GetSymbolTransl();
    const char* names[] = {"a", "b", "c", "d"}; for (int i = 0; i < 4; i++) if ((*tr)(names[i]) != (VATA::ExplicitFiniteAut::SymbolType)i) throw std::runtime_error("NFA alphabet not fresh");
    return (*tr)("x"); }();
  return sx;
}
inline VATA::ExplicitFiniteAut buildFA(const NFA& A, bool reverseOrder = false) {
  const VATA::ExplicitFiniteAut::SymbolType START_SYMBOL = startSymbol();
  VATA::ExplicitFiniteAut x;
  if (!reverseOrder) for (auto& e : A.edges) x.AddTransition(std::get<0>(e), std::get<1>(e), std::get<2>(e));
  else for (auto it = A.edges.rbegin(); it != A.edges.rend(); ++it) x.AddTransition(std::get<0>(*it), std::get<1>(*it), std::get<2>(*it));
  for (auto q : A.finals) x.SetStateFinal(q); for (auto q : A.starts) x.SetStateStart(q, START_SYMBOL); return x;
}
inline NFA readBackFA(const VATA::ExplicitFiniteAut& x) {   // through the core fields
  NFA r; const VATA::ExplicitFiniteAutCore& c = *x.core_;
  for (auto q : c.startStates_) r.starts.insert(q); for (auto q : c.finalStates_) r.finals.insert(q);
  for (auto& sc : *c.transitions_) if (sc.second) for (auto& sy : *sc.second) for (auto t : sy.second) r.edges.insert(std::make_tuple(sc.first, (int)sy.first, t));
  verif::obs(r.str()); return r;
}

// FA(n, L, <=k): edges from n x L x n, any start set, any final set; ordered by #edges
struct FADomain {
  int n, L, maxEdges; std::vector<std::tuple<size_t, int, size_t>> U;
  struct Item { uint8_t ne; uint8_t e[8]; uint8_t st, fin; }; std::vector<Item> items;
  FADomain(int n_, int L_, int k) : n(n_), L(L_), maxEdges(k) {
    for (int q = 0; q < n; q++) for (int a = 0; a < L; a++) for (int r = 0; r < n; r++) U.push_back(std::make_tuple((size_t)q, a, (size_t)r));
    if (k > 8 || U.size() > 255) throw std::runtime_error("FADomain too large");
    for (int ne = 0; ne <= k; ne++) { std::vector<int> pick; gen(0, ne, pick); }
  }
  void gen(size_t from, int left, std::vector<int>& pick) {
    if (!left) { for (unsigned s = 0; s < (1u << n); s++) for (unsigned f = 0; f < (1u << n); f++) { Item it; it.ne = (uint8_t)pick.size(); for (size_t i = 0; i < pick.size(); i++) it.e[i] = (uint8_t)pick[i]; it.st = (uint8_t)s; it.fin = (uint8_t)f; items.push_back(it); } return; }
    for (size_t i = from; i + left <= U.size(); i++) { pick.push_back((int)i); gen(i + 1, left - 1, pick); pick.pop_back(); }
  }
  // keep only NFAs all of whose states are reachable and co-reachable and whose language is non-empty (inclusion trims its operands first)
  void keepTrimmedOnly() { std::vector<Item> k; for (size_t i = 0; i < items.size(); i++) { NFA A = get(i); if (emptyLang(A)) continue; auto f = fwdReach(A), b = bwdReach(A); bool ok = true; for (auto q : A.states()) if (!f.count(q) || !b.count(q)) ok = false; if (ok) k.push_back(items[i]); } items.swap(k); }
  size_t size() const { return items.size(); }
  int numEdges(size_t i) const { return items[i].ne; }
  NFA get(size_t i) const { NFA A; const Item& it = items[i]; for (int k = 0; k < it.ne; k++) A.edges.insert(U[it.e[k]]); for (int q = 0; q < n; q++) { if (it.st >> q & 1) A.starts.insert(q); if (it.fin >> q & 1) A.finals.insert(q); } return A; }
};
inline std::string timbukFA(const NFA& A, int L, const std::string& name = "A") {
  std::ostringstream os; os << "Ops x:0"; for (int a = 0; a < L; a++) os << " " << char('a' + a) << ":1"; os << "\nAutomaton " << name << "\nStates"; for (auto q : A.states()) os << " q" << q;
  os << "\nFinal States"; for (auto q : A.finals) os << " q" << q; os << "\nTransitions\n"; for (auto q : A.starts) os << "x -> q" << q << "\n";
  for (auto& e : A.edges) os << char('a' + std::get<1>(e)) << "(q" << std::get<0>(e) << ") -> q" << std::get<2>(e) << "\n"; return os.str();
}

}  // namespace ref
