// Boring reference model of (bottom-up, nondeterministic, finite) tree automata.
// Everything is by definition: fixpoints over explicit sets, subset construction without
// antichains or simulations.  Symbols are small ints; the rank of a rule is ch.size().
#pragma once
#include <algorithm>
#include <cstdint>
#include <map>
#include <set>
#include <sstream>
#include <string>
#include <vector>

namespace ref {

struct Rule {
  int sym; std::vector<size_t> ch; size_t par;
  bool operator<(const Rule& o) const { if (sym != o.sym) return sym < o.sym; if (par != o.par) return par < o.par; return ch < o.ch; }
  bool operator==(const Rule& o) const { return sym == o.sym && par == o.par && ch == o.ch; }
};

struct TA {
  std::set<Rule> rules; std::set<size_t> finals;
  bool operator==(const TA& o) const { return rules == o.rules && finals == o.finals; }
  bool operator!=(const TA& o) const { return !(*this == o); }
  bool operator<(const TA& o) const { if (rules != o.rules) return rules < o.rules; return finals < o.finals; }
  std::set<size_t> states() const { std::set<size_t> s(finals); for (auto& r : rules) { s.insert(r.par); for (auto c : r.ch) s.insert(c); } return s; }
  std::set<size_t> owners() const { std::set<size_t> s; for (auto& r : rules) s.insert(r.par); return s; }
  std::string str(const char* const* symNames = nullptr) const {
    std::ostringstream os; os << "F={"; bool f = true; for (auto q : finals) { os << (f ? "" : ",") << q; f = false; } os << "}";
    for (auto& r : rules) { os << " "; if (symNames) os << symNames[r.sym]; else os << "s" << r.sym; if (!r.ch.empty()) { os << "("; for (size_t i = 0; i < r.ch.size(); i++) os << (i ? "," : "") << r.ch[i]; os << ")"; } os << "->" << r.par; }
    return os.str();
  }
};

inline std::set<size_t> productive(const TA& A) {
  std::set<size_t> P; bool ch = true;
  while (ch) { ch = false; for (auto& r : A.rules) { if (P.count(r.par)) continue; bool ok = true; for (auto c : r.ch) if (!P.count(c)) ok = false; if (ok) { P.insert(r.par); ch = true; } } }
  return P;
}
// top-down reachable from the final states through every rule of a reached parent
inline std::set<size_t> reachableTopDown(const TA& A) {
  std::set<size_t> R(A.finals); bool ch = true;
  while (ch) { ch = false; for (auto& r : A.rules) if (R.count(r.par)) for (auto c : r.ch) if (R.insert(c).second) ch = true; }
  return R;
}
// states that take part in some accepting run: productive, and reachable from a productive final
// state through rules all of whose children are productive
inline std::set<size_t> useful(const TA& A) {
  auto P = productive(A); std::set<size_t> R; for (auto f : A.finals) if (P.count(f)) R.insert(f);
  bool ch = true;
  while (ch) { ch = false; for (auto& r : A.rules) { if (!R.count(r.par)) continue; bool ok = true; for (auto c : r.ch) if (!P.count(c)) ok = false; if (!ok) continue; for (auto c : r.ch) if (R.insert(c).second) ch = true; } }
  return R;
}
inline bool usefulRule(const Rule& r, const std::set<size_t>& U) { if (!U.count(r.par)) return false; for (auto c : r.ch) if (!U.count(c)) return false; return true; }
inline bool emptyLang(const TA& A) { auto P = productive(A); for (auto f : A.finals) if (P.count(f)) return false; return true; }
inline TA trimmed(const TA& A) { auto U = useful(A); TA r; for (auto& x : A.rules) if (usefulRule(x, U)) r.rules.insert(x); for (auto f : A.finals) if (U.count(f)) r.finals.insert(f); return r; }

// Exact inclusion L(A) <= L(B): all reachable pairs (state of A, set of states of B reached by the
// same tree), textbook bottom-up subset construction of B in lock-step with A.
// all reachable pairs (q, S): q a state of A, S the set of states of B (as a bit mask over `bs`, the sorted states of B) reached by one common tree
inline std::set<std::pair<size_t, uint64_t>> reachablePairsMask(const TA& A, const TA& B, std::vector<size_t>& bs) {
  { auto s = B.states(); bs.assign(s.begin(), s.end()); }
  if (bs.size() > 62) throw std::runtime_error("ref::included: too many states");
  std::map<size_t, int> bidx; for (size_t i = 0; i < bs.size(); i++) bidx[bs[i]] = (int)i;
  typedef uint64_t M;
  std::set<std::pair<size_t, M>> R; bool ch = true;
  std::vector<Rule> ar(A.rules.begin(), A.rules.end()), br(B.rules.begin(), B.rules.end());
  while (ch) {
    ch = false; std::vector<std::pair<size_t, M>> cur(R.begin(), R.end());
    for (auto& r : ar) {
      size_t n = r.ch.size(); std::vector<std::vector<M>> opts(n); bool ok = true;
      for (size_t i = 0; i < n; i++) { for (auto& p : cur) if (p.first == r.ch[i]) opts[i].push_back(p.second); if (opts[i].empty()) ok = false; }
      if (!ok) continue;
      std::vector<size_t> idx(n, 0);
      while (true) {
        M S = 0;
        for (auto& q : br) { if (q.sym != r.sym || q.ch.size() != n) continue; bool all = true; for (size_t i = 0; i < n; i++) if (!((opts[i][idx[i]] >> bidx[q.ch[i]]) & 1)) { all = false; break; } if (all) S |= M(1) << bidx[q.par]; }
        if (R.insert({r.par, S}).second) ch = true;
        size_t k = 0; while (k < n && ++idx[k] == opts[k].size()) { idx[k] = 0; k++; }
        if (k == n) break;
      }
    }
  }
  return R;
}
inline bool included(const TA& A, const TA& B) {
  std::vector<size_t> bs; auto R = reachablePairsMask(A, B, bs); std::map<size_t, int> bidx; for (size_t i = 0; i < bs.size(); i++) bidx[bs[i]] = (int)i;
  uint64_t bfin = 0; for (auto f : B.finals) bfin |= uint64_t(1) << bidx[f];
  for (auto& p : R) if (A.finals.count(p.first) && !(p.second & bfin)) return false;
  return true;
}
inline std::set<std::pair<size_t, std::set<size_t>>> reachablePairs(const TA& A, const TA& B) {
  std::vector<size_t> bs; auto R = reachablePairsMask(A, B, bs); std::set<std::pair<size_t, std::set<size_t>>> out;
  for (auto& p : R) { std::set<size_t> S; for (size_t i = 0; i < bs.size(); i++) if (p.second >> i & 1) S.insert(bs[i]); out.insert({p.first, S}); } return out;
}
inline bool equalLang(const TA& A, const TA& B) { return included(A, B) && included(B, A); }

inline TA mapStates(const TA& A, const std::map<size_t, size_t>& m) {
  TA r; for (auto f : A.finals) r.finals.insert(m.at(f)); for (auto x : A.rules) { for (auto& c : x.ch) c = m.at(c); x.par = m.at(x.par); r.rules.insert(x); } return r;
}
template <class F> inline TA mapStatesF(const TA& A, F f) {
  TA r; for (auto q : A.finals) r.finals.insert(f(q)); for (auto x : A.rules) { for (auto& c : x.ch) c = f(c); x.par = f(x.par); r.rules.insert(x); } return r;
}
inline TA shift(const TA& A, size_t d) { return mapStatesF(A, [d](size_t q) { return q + d; }); }
// union of two automata whose state sets are made disjoint by construction
inline TA disjointUnion(const TA& A, const TA& B) {
  size_t off = 0; for (auto q : A.states()) off = std::max(off, q + 1);
  TA a = A, b = shift(B, off); a.rules.insert(b.rules.begin(), b.rules.end()); a.finals.insert(b.finals.begin(), b.finals.end()); return a;
}
inline TA plainUnion(const TA& A, const TA& B) { TA a = A; a.rules.insert(B.rules.begin(), B.rules.end()); a.finals.insert(B.finals.begin(), B.finals.end()); return a; }
// full product; state (p,q) is coded p*W+q
inline TA product(const TA& A, const TA& B, size_t W = 1000) {
  TA r; auto code = [W](size_t p, size_t q) { return p * W + q; };
  for (auto& x : A.rules) for (auto& y : B.rules) if (x.sym == y.sym && x.ch.size() == y.ch.size()) { Rule z; z.sym = x.sym; z.par = code(x.par, y.par); for (size_t i = 0; i < x.ch.size(); i++) z.ch.push_back(code(x.ch[i], y.ch[i])); r.rules.insert(z); }
  for (auto f : A.finals) for (auto g : B.finals) r.finals.insert(code(f, g));
  return r;
}
inline TA withFinals(const TA& A, const std::set<size_t>& F) { TA r = A; r.finals = F; return r; }

// Is every tree over the ranked alphabet `ranks` (symbol id -> rank) accepted by A?
// Bottom-up subset construction over the whole alphabet, all reachable macro-states must hold a final state.
inline bool universalOver(const TA& A, const std::map<int, size_t>& ranks) {
  std::vector<size_t> as; { auto s = A.states(); as.assign(s.begin(), s.end()); }
  std::map<size_t, int> aidx; for (size_t i = 0; i < as.size(); i++) aidx[as[i]] = (int)i;
  typedef uint64_t M; M fin = 0; for (auto f : A.finals) fin |= M(1) << aidx[f];
  std::set<M> R; bool ch = true;
  while (ch) {
    ch = false; std::vector<M> cur(R.begin(), R.end());
    for (auto& sr : ranks) {
      size_t n = sr.second; if (n > 0 && cur.empty()) continue;
      std::vector<size_t> idx(n, 0);
      while (true) {
        M S = 0;
        for (auto& q : A.rules) { if (q.sym != sr.first || q.ch.size() != n) continue; bool all = true; for (size_t i = 0; i < n; i++) if (!((cur[idx[i]] >> aidx[q.ch[i]]) & 1)) { all = false; break; } if (all) S |= M(1) << aidx[q.par]; }
        if (R.insert(S).second) ch = true;
        size_t k = 0; while (k < n && ++idx[k] == cur.size()) { idx[k] = 0; k++; }
        if (k == n) break;
      }
    }
  }
  for (auto S : R) if (!(S & fin)) return false;
  return true;
}

// ---- trees, membership (second, independent oracle used to cross-check the model itself)
struct Tree { int sym; std::vector<Tree> kids; };
inline std::set<size_t> runStates(const TA& A, const Tree& t) {
  std::vector<std::set<size_t>> ks; for (auto& k : t.kids) ks.push_back(runStates(A, k));
  std::set<size_t> r; for (auto& x : A.rules) { if (x.sym != t.sym || x.ch.size() != t.kids.size()) continue; bool ok = true; for (size_t i = 0; i < ks.size(); i++) if (!ks[i].count(x.ch[i])) ok = false; if (ok) r.insert(x.par); }
  return r;
}
inline bool member(const TA& A, const Tree& t) { for (auto q : runStates(A, t)) if (A.finals.count(q)) return true; return false; }
inline void treesUpTo(const std::map<int, size_t>& ranks, int height, std::vector<Tree>& out) {
  out.clear(); std::vector<Tree> prev;
  for (int h = 0; h <= height; h++) {
    std::vector<Tree> cur;
    for (auto& sr : ranks) {
      size_t n = sr.second; if (n == 0) { cur.push_back(Tree{sr.first, {}}); continue; }
      if (prev.empty()) continue;
      std::vector<size_t> idx(n, 0);
      while (true) { Tree t{sr.first, {}}; for (size_t i = 0; i < n; i++) t.kids.push_back(prev[idx[i]]); cur.push_back(t); size_t k = 0; while (k < n && ++idx[k] == prev.size()) { idx[k] = 0; k++; } if (k == n) break; }
    }
    prev = cur;
  }
  out = prev;
}
inline std::string treeStr(const Tree& t, const char* const* names = nullptr) {
  std::string s = names ? names[t.sym] : "s" + std::to_string(t.sym); if (t.kids.empty()) return s; s += "("; for (size_t i = 0; i < t.kids.size(); i++) s += (i ? "," : "") + treeStr(t.kids[i], names); return s + ")";
}

// ---- simulations by definition (C04)
// downward: q <= r iff every rule a(q1..qk)->q is answered by a rule a(r1..rk)->r with qi <= ri
inline std::map<std::pair<size_t, size_t>, bool> downSim(const TA& A, const std::vector<size_t>& sts) {
  std::map<std::pair<size_t, size_t>, bool> S; for (auto q : sts) for (auto r : sts) S[{q, r}] = true;
  bool ch = true;
  while (ch) { ch = false;
    for (auto q : sts) for (auto r : sts) if (S[{q, r}]) { bool ok = true;
      for (auto& ru : A.rules) if (ru.par == q && ok) { bool found = false;
        for (auto& rv : A.rules) if (rv.par == r && rv.sym == ru.sym && rv.ch.size() == ru.ch.size()) { bool all = true; for (size_t j = 0; j < ru.ch.size(); j++) if (!S[{ru.ch[j], rv.ch[j]}]) all = false; if (all) { found = true; break; } }
        if (!found) ok = false; }
      if (!ok) { S[{q, r}] = false; ch = true; } } }
  return S;
}
// upward (w.r.t. identity on siblings): q <= r implies (q final => r final) and every rule with q at
// position i is answered by a rule with r at position i, identical siblings and related parents
inline std::map<std::pair<size_t, size_t>, bool> upSim(const TA& A, const std::vector<size_t>& sts) {
  std::map<std::pair<size_t, size_t>, bool> S; for (auto q : sts) for (auto r : sts) S[{q, r}] = true;
  bool ch = true;
  while (ch) { ch = false;
    for (auto q : sts) for (auto r : sts) if (S[{q, r}]) { bool ok = true;
      if (A.finals.count(q) && !A.finals.count(r)) ok = false;
      for (auto& ru : A.rules) for (size_t i = 0; i < ru.ch.size() && ok; i++) if (ru.ch[i] == q) { bool found = false;
        for (auto& rv : A.rules) if (rv.sym == ru.sym && rv.ch.size() == ru.ch.size() && rv.ch[i] == r && S[{ru.par, rv.par}]) { bool same = true; for (size_t j = 0; j < ru.ch.size(); j++) if (j != i && ru.ch[j] != rv.ch[j]) same = false; if (same) { found = true; break; } }
        if (!found) ok = false; }
      if (!ok) { S[{q, r}] = false; ch = true; } } }
  return S;
}

}  // namespace ref
