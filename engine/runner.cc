#include "runner.hh"

#include <algorithm>
#include <cerrno>
#include <csignal>
#include <cstdio>
#include <cstdlib>
#include <cstring>
#include <fcntl.h>
#include <fstream>
#include <iostream>
#include <sys/mman.h>
#include <sys/personality.h>
#include <sys/stat.h>
#include <sys/wait.h>
#include <time.h>
#include <unistd.h>

namespace verif {

std::vector<Check>& registry() { static std::vector<Check> r; return r; }

static uint64_t g_caseDigest = 0;
void obs(uint64_t v) { g_caseDigest = (g_caseDigest ^ v) * 1099511628211ull + 0x9e3779b97f4a7c15ull; }
void obs(const std::string& s) { uint64_t h = 1469598103934665603ull; for (unsigned char c : s) h = (h ^ c) * 1099511628211ull; obs(h); }
uint64_t takeCaseDigest() { uint64_t d = g_caseDigest; g_caseDigest = 0; return d; }

double nowMono() { timespec ts; clock_gettime(CLOCK_MONOTONIC, &ts); return ts.tv_sec + ts.tv_nsec * 1e-9; }

std::string jsonEscape(const std::string& s) {
  std::string o; o.reserve(s.size() + 8);
  for (unsigned char c : s) {
    switch (c) {
      case '"': o += "\\\""; break; case '\\': o += "\\\\"; break; case '\n': o += "\\n"; break;
      case '\t': o += "\\t"; break; case '\r': o += "\\r"; break;
      default: if (c < 0x20 || c >= 0x7f) { char b[8]; snprintf(b, sizeof b, "\\u%04x", c); o += b; } else o += char(c);
    }
  }
  return o;
}

static std::string esc(const std::string& s) {   // line/tab safe encoding for worker files
  std::string o; for (char c : s) { if (c == '\n') o += "\\n"; else if (c == '\t') o += "\\t"; else if (c == '\\') o += "\\\\"; else o += c; } return o;
}
static std::string unesc(const std::string& s) {
  std::string o; for (size_t i = 0; i < s.size(); i++) { if (s[i] == '\\' && i + 1 < s.size()) { char n = s[++i]; o += n == 'n' ? '\n' : n == 't' ? '\t' : n; } else o += s[i]; } return o;
}
static std::vector<std::string> splitTab(const std::string& s) {
  std::vector<std::string> v; size_t p = 0; while (true) { size_t q = s.find('\t', p); if (q == std::string::npos) { v.push_back(s.substr(p)); break; } v.push_back(s.substr(p, q - p)); p = q + 1; } return v;
}

void Ctx::viol(const std::string& subcheck, const std::string& cls, std::vector<std::string> feats,
               const std::string& detail, uint64_t weight) {
  std::sort(feats.begin(), feats.end());
  std::string f; for (auto& x : feats) { if (!f.empty()) f += ","; f += x; }
  std::string sig = subcheck + "|" + cls + "|" + f;
  counters_["__viol|" + sig]++;
  auto& seen = sigSeen_[sig];
  if (seen.first < 3 || weight < seen.second) {
    Viol v; v.subcheck = subcheck; v.cls = cls; v.feats = f; v.detail = detail; v.index = index; v.weight = weight;
    viols_.push_back(v);
    if (seen.first == 0 || weight < seen.second) seen.second = weight;
    seen.first++;
  }
}

void Ctx::flushTo(std::string& out) {
  for (auto& kv : counters_) out += "C\t" + esc(kv.first) + "\t" + std::to_string(kv.second) + "\n";
  for (auto& v : viols_) out += "V\t" + std::to_string(v.weight) + "\t" + std::to_string(v.index) + "\t" + esc(v.subcheck) + "\t" + esc(v.cls) + "\t" + esc(v.feats) + "\t" + esc(v.detail) + "\n";
  for (auto& s : samples_) out += "S\t" + esc(s) + "\n";
  for (auto& e : emits_) out += "E\t" + esc(e) + "\n";
  counters_.clear(); viols_.clear(); emits_.clear();
  // samples_ kept so that wantSample() stays false after the first few; but do not re-emit
}

void Env::noteStr(const std::string& key, const std::string& s) { info[key] = "\"" + jsonEscape(s) + "\""; }
bool Env::pastDeadline() const { return deadline > 0 && nowMono() > deadline; }

void Env::addViol(const Viol& v) {
  std::string sig = v.subcheck + "|" + v.cls + "|" + v.feats;
  auto& ex = violExamples[sig];
  ex.push_back(v);
  std::sort(ex.begin(), ex.end(), [](const Viol& a, const Viol& b) { if (a.weight != b.weight) return a.weight < b.weight; if (a.stage != b.stage) return a.stage < b.stage; return a.index < b.index; });
  if (ex.size() > 3) ex.resize(3);
}

struct Slot {             // one per worker, in MAP_SHARED memory
  volatile uint64_t index;       // case currently executing
  volatile double start;         // monotonic time it started
  volatile uint64_t seqDone;     // number of blocks of this worker's sequence committed
  volatile int running;          // 1 while inside a case
};
struct Shared { volatile int stop; Slot slots[256]; };

static void workerLoop(const ParallelOpts& o, int w, int W, uint64_t nblocks, uint64_t rot, Shared* sh,
                       const std::set<uint64_t>& bad, const std::string& outPath, uint64_t samplesAlready) {
  int fd = open(outPath.c_str(), O_WRONLY | O_CREAT | O_APPEND, 0644);
  if (fd < 0) _exit(97);
  Ctx ctx;
  for (uint64_t i = 0; i < samplesAlready && i < 4; i++) ctx.samples_.push_back("");
  size_t samplesWritten = ctx.samples_.size();
  Slot& sl = sh->slots[w];
  uint64_t seq = 0;
  for (uint64_t k = w; k < nblocks; k += W, seq++) {
    if (seq < sl.seqDone) continue;
    if (sh->stop) break;
    uint64_t b = (k + rot) % nblocks;
    uint64_t lo = b * o.block, hi = std::min(o.size, lo + o.block);
    for (uint64_t i = lo; i < hi; i++) {
      if (bad.count(i)) continue;
      sl.index = i; sl.start = nowMono(); sl.running = 1;
      ctx.index = i;
      takeCaseDigest();
      o.run(i, ctx);
      { uint64_t d = takeCaseDigest(); if (d) { uint64_t h = (d ^ (i * 0x9e3779b97f4a7c15ull)) * 0xff51afd7ed558ccdull; ctx.counters_["__digest_lo"] += h & 0xffffffffull; ctx.counters_["__digest_hi"] += h >> 32; ctx.counters_["__observed_cases"]++; } }
      sl.running = 0;
    }
    std::string payload = "BEGIN\t" + std::to_string(b) + "\n";
    {  // only new samples
      std::vector<std::string> keep = ctx.samples_;
      std::vector<std::string> fresh(ctx.samples_.begin() + samplesWritten, ctx.samples_.end());
      ctx.samples_ = fresh; ctx.flushTo(payload); ctx.samples_ = keep; samplesWritten = keep.size();
    }
    payload += "END\t" + std::to_string(b) + "\n";
    size_t off = 0; while (off < payload.size()) { ssize_t n = write(fd, payload.data() + off, payload.size() - off); if (n <= 0) _exit(98); off += n; }
    sl.seqDone = seq + 1;
  }
  close(fd);
  fflush(nullptr);
  _exit(0);
}

static std::string tailOfFile(const std::string& path, size_t maxBytes) {
  std::ifstream f(path, std::ios::binary); if (!f) return "";
  f.seekg(0, std::ios::end); std::streamoff n = f.tellg(); std::streamoff from = n > (std::streamoff)maxBytes ? n - maxBytes : 0;
  f.seekg(from); std::string s((size_t)(n - from), '\0'); f.read(&s[0], s.size()); return s;
}

// run one case alone in a fresh child; returns 0 ok, >0 crash (signal or exit code), -1 hang
static int soloRun(const ParallelOpts& o, uint64_t idx, double limit, const std::string& errPath) {
  pid_t p = fork();
  if (p == 0) {
    int efd = open(errPath.c_str(), O_WRONLY | O_CREAT | O_TRUNC, 0644); if (efd >= 0) { dup2(efd, 2); close(efd); }
    Ctx ctx; ctx.index = idx; o.run(idx, ctx); fflush(nullptr); _exit(0);
  }
  double t0 = nowMono();
  while (true) {
    int st; pid_t r = waitpid(p, &st, WNOHANG);
    if (r == p) { if (WIFEXITED(st) && WEXITSTATUS(st) == 0) return 0; return WIFSIGNALED(st) ? WTERMSIG(st) : 1000 + WEXITSTATUS(st); }
    if (nowMono() - t0 > limit) { kill(p, SIGKILL); waitpid(p, &st, 0); return -1; }
    usleep(2000);
  }
}

bool Env::parallel(const ParallelOpts& o) {
  double t0 = nowMono();
  if (only) {
    if (o.stage != onlyStage) return true;
    Ctx ctx; ctx.index = onlyIndex; ctx.verbose = true;
    if (onlyIndex >= o.size) { std::cerr << "index out of range for stage " << o.stage << "\n"; exit(3); }
    if (onlyWithPrefix) { Ctx pre; for (uint64_t i = (onlyIndex / o.block) * o.block; i < onlyIndex; i++) { pre.index = i; o.run(i, pre); } }
    o.run(onlyIndex, ctx);
    for (auto& kv : ctx.counters_) counters[kv.first] += kv.second;
    for (auto& v : ctx.viols_) { Viol x = v; x.stage = o.stage; addViol(x); violCount[x.subcheck + "|" + x.cls + "|" + x.feats]++; }
    for (auto& e : ctx.emits_) emits.push_back(e);
    return true;
  }
  if (o.size == 0) { stagesJson.push_back("{\"stage\":\"" + jsonEscape(o.stage) + "\",\"size\":0,\"done\":0,\"wall_s\":0}"); return true; }
  uint64_t nblocks = (o.size + o.block - 1) / o.block;
  int W = (int)std::min<uint64_t>(workers, nblocks);
  Shared* sh = (Shared*)mmap(nullptr, sizeof(Shared), PROT_READ | PROT_WRITE, MAP_SHARED | MAP_ANONYMOUS, -1, 0);
  memset((void*)sh, 0, sizeof(Shared));
  char dirT[] = "/tmp/vcheck.XXXXXX"; std::string dir = mkdtemp(dirT);
  std::vector<pid_t> pids(W, -1); std::set<uint64_t> bad;
  uint64_t rot = nblocks ? seed % nblocks : 0;
  double timeout = o.caseTimeout * timeoutScale;
  auto spawn = [&](int w) {
    fflush(nullptr);
    pid_t p = fork();
    if (p == 0) {
      std::string ep = dir + "/w" + std::to_string(w) + ".err";
      int efd = open(ep.c_str(), O_WRONLY | O_CREAT | O_TRUNC, 0644); if (efd >= 0) { dup2(efd, 2); close(efd); }
      workerLoop(o, w, W, nblocks, rot, sh, bad, dir + "/w" + std::to_string(w) + ".out", samples.size());
    }
    pids[w] = p;
  };
  for (int w = 0; w < W; w++) { sh->slots[w].seqDone = 0; spawn(w); }
  int live = W; bool cut = false; std::vector<std::string> cappedList;
  std::vector<Viol> crashViols;
  auto recordBad = [&](int w, uint64_t idx, const std::string& kind, const std::string& what) {
    bad.insert(idx);
    // confirm alone in a fresh process
    std::string ep = dir + "/solo.err";
    int r = soloRun(o, idx, kind == "hang" ? timeout * 4 : std::max(timeout * 10, 60.0), ep);
    std::string cls = kind;
    std::string errTail = tailOfFile(r == 0 ? dir + "/w" + std::to_string(w) + ".err" : ep, 3000);
    if (r == 0) { if (kind == "hang") return; /* slow, not hung: the solo run with 10x limit finished */ cls = kind + "_only_in_sequence"; }
    Viol v; v.subcheck = o.stage; v.cls = cls; v.stage = o.stage; v.index = idx; v.weight = 0;
    v.feats = o.crashFeats ? o.crashFeats(idx) : "";
    v.detail = what + (o.describe ? " case: " + o.describe(idx) : "") + (errTail.empty() ? "" : "\nstderr tail:\n" + errTail);
    crashViols.push_back(v);
  };
  while (live > 0) {
    bool progressed = false;
    for (int w = 0; w < W; w++) {
      if (pids[w] < 0) continue;
      int st; pid_t r = waitpid(pids[w], &st, WNOHANG);
      if (r == pids[w]) {
        progressed = true;
        if (WIFEXITED(st) && WEXITSTATUS(st) == 0) { pids[w] = -1; live--; continue; }
        uint64_t idx = sh->slots[w].index;
        std::string what = WIFSIGNALED(st) ? "worker killed by signal " + std::to_string(WTERMSIG(st)) : "worker exited with status " + std::to_string(WEXITSTATUS(st));
        if (WIFSIGNALED(st) && WTERMSIG(st) == SIGKILL) {   // not sent by this process (hangs are killed and reaped in the branch below) and never raised by the code under
          // test (sanitizers abort, faults are SIGSEGV/SIGBUS): the kernel's out-of-memory killer or an operator.  An infrastructure event, not an observation: run the block again.
          counters["workers_killed_from_outside_and_restarted"]++;
          if (counters["workers_killed_from_outside_and_restarted"] > 40) { std::cerr << "vcheck: more than 40 workers were killed by SIGKILL from outside (out of memory?): giving up\n"; exit(2); }
          static std::map<std::string, int> extKills;   // the same case killed twice: its own memory use is the likelier cause; fall through and treat it as a crash of that case
          if (!(sh->slots[w].running && ++extKills[o.stage + "#" + std::to_string(idx)] >= 2)) { sh->slots[w].running = 0; spawn(w); continue; }
          what += " (twice while running this case: memory exhaustion?)";
        }
        if (!sh->slots[w].running) { std::cerr << "vcheck: worker " << w << " died outside a case: " << what << "\n" << tailOfFile(dir + "/w" + std::to_string(w) + ".err", 2000); exit(2); }
        recordBad(w, idx, "crash", what);
        sh->slots[w].running = 0;
        spawn(w);
      } else if (sh->slots[w].running && nowMono() - sh->slots[w].start > timeout) {
        uint64_t idx = sh->slots[w].index;
        kill(pids[w], SIGKILL); waitpid(pids[w], &st, 0); progressed = true;
        if (o.hangIsCap) { bad.insert(idx); counters["capped_cases"]++; if (cappedList.size() < 20) cappedList.push_back(o.describe ? o.describe(idx) : std::to_string(idx)); }
        else recordBad(w, idx, "hang", "case exceeded " + std::to_string(timeout) + " s");
        sh->slots[w].running = 0;
        spawn(w);
      }
    }
    if (!cut && pastDeadline()) { sh->stop = 1; cut = true; }
    if (!cut && crashViols.size() >= 12) { sh->stop = 1; cut = true; info[o.stage + ".stopped_early"] = "\"12 crashes/hangs attributed to single cases: remaining blocks of this stage skipped\""; }   // circuit breaker, never reached on a healthy tree
    if (!progressed) usleep(5000);
  }
  // merge worker files
  std::set<uint64_t> blocksDone; uint64_t casesDone = 0;
  for (int w = 0; w < W; w++) {
    std::ifstream f(dir + "/w" + std::to_string(w) + ".out"); std::string line;
    std::vector<std::string> buf; bool in = false; uint64_t cur = 0;
    while (std::getline(f, line)) {
      if (line.compare(0, 6, "BEGIN\t") == 0) { in = true; buf.clear(); cur = std::stoull(line.substr(6)); continue; }
      if (line.compare(0, 4, "END\t") == 0) {
        if (in && std::stoull(line.substr(4)) == cur && blocksDone.insert(cur).second) {
          casesDone += std::min(o.size, (cur + 1) * o.block) - cur * o.block;
          for (auto& l : buf) {
            auto t = splitTab(l);
            if (t[0] == "C" && t.size() >= 3) {
              std::string k = unesc(t[1]); uint64_t n = std::stoull(t[2]);
              if (k.compare(0, 7, "__viol|") == 0) violCount[k.substr(7)] += n; else counters[k] += n;
            } else if (t[0] == "V" && t.size() >= 7) {
              Viol v; v.weight = std::stoull(t[1]); v.index = std::stoull(t[2]); v.subcheck = unesc(t[3]); v.cls = unesc(t[4]); v.feats = unesc(t[5]); v.detail = unesc(t[6]); v.stage = o.stage; addViol(v);
            } else if (t[0] == "S" && t.size() >= 2) { if (samples.size() < 6) samples.push_back(unesc(t[1])); }
            else if (t[0] == "E" && t.size() >= 2) emits.push_back(unesc(t[1]));
          }
        }
        in = false; continue;
      }
      if (in) buf.push_back(line);
    }
  }
  if (!cappedList.empty()) { std::string j = "["; for (size_t i = 0; i < cappedList.size(); i++) j += (i ? "," : "") + std::string("\"") + jsonEscape(cappedList[i]) + "\""; info[o.stage + ".capped_examples"] = j + "]"; }
  if (samples.empty() && o.describe && o.size) samples.push_back(o.describe(o.size / 2));   // every stage shows at least one of the cases it explored
  for (auto& v : crashViols) { addViol(v); violCount[v.subcheck + "|" + v.cls + "|" + v.feats]++; }
  std::string rm = "rm -rf '" + dir + "'"; if (system(rm.c_str())) {}
  munmap((void*)sh, sizeof(Shared));
  bool all = blocksDone.size() == nblocks;
  if (!all) complete = false;
  std::ostringstream sj; sj << "{\"stage\":\"" << jsonEscape(o.stage) << "\",\"size\":" << o.size << ",\"done\":" << casesDone
     << ",\"complete\":" << (all ? "true" : "false") << ",\"wall_s\":" << (nowMono() - t0) << "}";
  stagesJson.push_back(sj.str());
  return all;
}

}  // namespace verif

