// Common exploration runner: forks workers over an index space, attributes crashes and hangs to
// single cases, aggregates counters / violations / samples, writes one JSON result.
#pragma once
#include <cstdint>
#include <functional>
#include <map>
#include <set>
#include <sstream>
#include <string>
#include <vector>

namespace verif {

struct Viol {
  std::string subcheck, cls, feats, detail;   // feats: comma separated, sorted
  std::string stage;
  uint64_t index = 0, weight = 0;
};

// Per-case context handed to the check body (lives in a worker process).
class Ctx {
 public:
  uint64_t index = 0;
  bool verbose = false;        // true on --only replay: checks may print details to stderr
  void count(const std::string& key, uint64_t n = 1) { counters_[key] += n; }
  void nontrivial(uint64_t n = 1) { counters_["__nontrivial"] += n; }
  void evals(uint64_t n = 1) { counters_["__evals"] += n; }
  // report a violation of the property under check
  void viol(const std::string& subcheck, const std::string& cls, std::vector<std::string> feats,
            const std::string& detail, uint64_t weight = 0);
  void sample(const std::string& s) { if (samples_.size() < 4) samples_.push_back(s); }
  bool wantSample() const { return samples_.size() < 4; }
  void emit(const std::string& line) { emits_.push_back(line); }

  // internal
  std::map<std::string, uint64_t> counters_;
  std::vector<Viol> viols_;
  std::map<std::string, std::pair<uint64_t, uint64_t>> sigSeen_;  // sig -> (written, best weight)
  std::vector<std::string> samples_, emits_;
  void flushTo(std::string& out);
};

struct ParallelOpts {
  std::string stage;              // name of this stage (appears in replay descriptors)
  uint64_t size = 0;              // number of cases
  uint64_t block = 256;           // cases per block
  double caseTimeout = 10.0;      // seconds per case before it is called a hang
  bool hangIsCap = false;         // true: a case exceeding the limit is counted as "capped" (neither coverage nor violation)
  std::function<void(uint64_t, Ctx&)> run;
  std::function<std::string(uint64_t)> describe;   // optional, for crash/hang records
  std::function<std::string(uint64_t)> crashFeats; // optional, features for crash/hang records
};

class Env {
 public:
  std::string checkName, property, tier;
  int workers = 16;
  uint64_t seed = 0;
  double deadline = 0;            // absolute monotonic seconds; 0 = none
  // replay of one case: "--only <stage>:<index>"
  bool only = false; std::string onlyStage; uint64_t onlyIndex = 0; bool onlyWithPrefix = false;   // --with-prefix: also run the preceding cases of the block (address/history dependent failures)
  std::string replayArg;          // free-form (histories)
  double timeoutScale = 1.0;

  // aggregated results
  std::map<std::string, uint64_t> counters;
  std::map<std::string, uint64_t> violCount;               // sig -> count
  std::map<std::string, std::vector<Viol>> violExamples;   // sig -> <=3 lowest (weight,index)
  std::vector<std::string> samples;
  std::vector<std::string> emits;                          // cleared by caller between stages
  std::vector<std::string> stagesJson;
  std::map<std::string, std::string> info;                 // free-form key -> json value
  bool complete = true;

  // run `opts.run` for every index in [0,size); returns false if the deadline cut it short
  bool parallel(const ParallelOpts& opts);
  void note(const std::string& key, const std::string& jsonValue) { info[key] = jsonValue; }
  void noteStr(const std::string& key, const std::string& s);
  void noteNum(const std::string& key, uint64_t v) { info[key] = std::to_string(v); }
  bool pastDeadline() const;
  void addViol(const Viol& v);
};

struct Check {
  std::string name, property, descr;
  std::function<void(Env&)> body;
};
std::vector<Check>& registry();
struct Register { Register(const std::string& name, const std::string& prop, const std::string& descr,
                           std::function<void(Env&)> body) { registry().push_back({name, prop, descr, body}); } };

std::string jsonEscape(const std::string& s);
// observation digest: glue code reports every observable output (read-backs, dumps, verdicts) of the case being executed; the runner folds the
// per-case hash into an order-independent total (counter "__digest") that the uninitialised-read differential (C20) compares between build variants
void obs(const std::string& s);
void obs(uint64_t v);
uint64_t takeCaseDigest();
double nowMono();

}  // namespace verif
